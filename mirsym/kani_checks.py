"""K: Kani/CBMC harnesses over the compiled runtime (/verif/kani), as a cross-check of C05(b) and C15 (dev profile).

The crate is copied to the scratch area, verified with `cargo kani` (offline, its own pinned toolchain, path
dependency on /repo), and a failing harness is replayed natively with Kani's concrete playback before it is
reported."""
import os
import re
import shutil
import subprocess
import time

from . import build


def run_kani(harnesses=None, features=(), timeout=900):
    src = os.path.join(build.VERIF, 'kani')
    tag = '+'.join(features) or 'default'
    dst = os.path.join(build.WORK, 'kani-crate-' + tag)
    if os.path.exists(dst):
        shutil.rmtree(dst)
    shutil.copytree(src, dst)
    env = dict(build.ENV_BASE)
    tdir = os.path.join(build.WORK, 'kani-target-' + tag)
    cmd = ['cargo', 'kani', '--target-dir', tdir]
    if features:
        cmd += ['--features', ','.join(features)]
    for h in harnesses or []:
        cmd += ['--harness', h]
    t = time.time()
    try:
        r = subprocess.run(['timeout', str(timeout)] + cmd, cwd=dst, env=env, capture_output=True, text=True)
    except Exception as e:      # noqa
        return {'error': str(e)}
    out = r.stdout + r.stderr
    res = {'wall_s': round(time.time() - t, 1), 'harnesses': {}, 'raw_tail': out[-1500:]}
    cur = None
    for line in out.splitlines():
        m = re.match(r'Checking harness (\S+?)\.\.\.', line)
        if m:
            cur = m.group(1)
            res['harnesses'][cur] = {'status': None, 'checks': None, 'time_s': None, 'failed_checks': []}
            continue
        if cur is None:
            continue
        h = res['harnesses'][cur]
        m = re.search(r'\*\* (\d+) of (\d+) failed', line)
        if m:
            h['checks'] = int(m.group(2))
            h['failed'] = int(m.group(1))
        if line.startswith('VERIFICATION:-'):
            h['status'] = 'SUCCESSFUL' if 'SUCCESSFUL' in line else 'FAILED'
        m = re.match(r'Verification Time: ([\d.]+)s', line)
        if m:
            h['time_s'] = float(m.group(1))
        m = re.search(r'Failed Checks: (.*)', line)
        if m:
            h['failed_checks'].append(m.group(1)[:200])
    m = re.search(r'Complete - (\d+) successfully verified harnesses, (\d+) failures', out)
    if m:
        res['ok'] = int(m.group(1))
        res['failures'] = int(m.group(2))
    else:
        res['error'] = 'kani did not complete (rc %d)' % r.returncode
    # native confirmation of failures through concrete playback
    for name, h in res['harnesses'].items():
        if h['status'] == 'FAILED':
            short = name.split('::')[-1]
            p = subprocess.run(['timeout', '600', 'cargo', 'kani', '--target-dir', tdir, '-Z', 'concrete-playback',
                                '--concrete-playback=inplace', '--harness', short] + (['--features', ','.join(features)] if features else []),
                               cwd=dst, env=env, capture_output=True, text=True)
            q = subprocess.run(['timeout', '600', 'cargo', 'kani', 'playback', '-Z', 'concrete-playback'] + (
                ['--features', ','.join(features)] if features else []), cwd=dst, env=env, capture_output=True, text=True)
            pout = q.stdout + q.stderr
            h['playback_reproduced'] = ('panicked at' in pout or 'test result: FAILED' in pout) and 'could not compile' not in pout
            h['playback_tail'] = pout[-800:]
    return res
