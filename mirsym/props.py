"""Per-property checks.  Each returns an exit code: 0 held, 1 violation (VIOLATION line printed),
2 inconclusive / engine error."""
import hashlib
import json
import os
import random
import time

from . import build, corpus, corpus_defs, lexcheck, pipeline, ref, report
from .exec import EngineError

CFG_QUICK = ['tc-unsafe', 'sm-safe']
CFG_ALL = ['tc-unsafe', 'sm-safe', 'tc-safe', 'sm-unsafe']


def log(*a):
    print(*a, flush=True)


# ----------------------------------------------------------------------------- worker task
def task_step(pl):
    d = pl['d']
    prog = pipeline.load_program(pl['mir'])
    tables = pl['tables']
    N = pl['N']
    tried = []
    while True:
        t = time.time()
        try:
            res = lexcheck.explore_step(prog, d, tables, N, pl['start'], partial=pl.get('partial', False),
                                        is_release=pl.get('release', False), budget=pl.get('budget'),
                                        stream=pl.get('stream', False))
            break
        except EngineError as e:
            if 'time budget' in str(e) and N > pl.get('Nmin', 3):
                tried.append((N, round(time.time() - t, 1)))
                N -= 1 if N <= 6 else 2
                continue
            raise
    return dict(id=d.id, cfg=pl['cfg'], start=pl['start'], N=N, N_tried=tried, leaves=res.leaves, kinds=res.kinds,
                failures=res.failures, samples=res.samples, stats=res.stats, fns=sorted(res.fn_seen),
                builtins=sorted(res.builtins), depths=(min(res.max_depth_by_leaf or [0]), max(res.max_depth_by_leaf or [0])),
                reads_max=res.reads_max, ignored=res.ignored_start_panics, profile='release' if pl.get('release') else 'dev',
                partial=pl.get('partial', False))


# ----------------------------------------------------------------------------- common preparation
class Prepared:
    pass


def prepare(defs, cfgs, name, profiles=('dev',)):
    """verdicts, reference tables and MIR programs for the accepted definitions"""
    P = Prepared()
    t = time.time()
    P.verdicts = pipeline.derive_verdicts(defs)
    P.accepted = [d for d in defs if P.verdicts[d.id]['status'] == 'accepted']
    P.unexpected = [d for d in defs if (P.verdicts[d.id]['status'] == 'accepted') != (d.expect == 'accept')]
    P.tables = {}
    P.refrecs = {}
    for d in defs:
        tb, recs, req = pipeline.reference_tables(d)
        P.tables[d.id] = tb
        P.refrecs[d.id] = (recs, req)
    P.no_ref = [d for d in P.accepted if P.tables[d.id] is None]
    usable = [d for d in P.accepted if P.tables[d.id] is not None]
    P.usable = usable
    P.progs = {}
    P.build_s = {}
    for prof in profiles:
        progs, times = pipeline.build_programs(name, usable, cfgs, prof)
        for c, pth in progs.items():
            P.progs[(c, prof)] = pth
            P.build_s[f'{c}@{prof}'] = times[c]
    P.prep_s = round(time.time() - t, 1)
    return P


VIOLATIONS_REPORTED = [0]      # violations printed by this process (each one replayed natively before it was printed)


def known_or_violation(prop, role, summary, replay_record, ev, name):
    k = report.match_known(prop, role)
    if k is not None:
        log(f'KNOWN-FINDING: property={prop} {k.get("what", summary)}')
        return 0
    path = report.write_replay(prop, name, replay_record)
    log(f'VIOLATION property={prop} replay={path}')
    log(f'  {summary}')
    ev.violations += 1
    VIOLATIONS_REPORTED[0] += 1
    return 1


# ----------------------------------------------------------------------------- replay of lexing failures
_native = {}


def native_binary(P, name, cfg, profile):
    key = (name, cfg, profile)
    if key not in _native:
        _native[key] = pipeline.build_native(name, P.usable, cfg, profile)
    return _native[key]


def confirm_lex_failure(P, name, d, f, r):
    """replay the solver's model natively.  -> (confirmed: bool|None, info)  None = cannot be confirmed
    natively (standard-level UB), reported from the path"""
    data = bytes(f['model']['bytes'])
    cfg, profile = r['cfg'], r['profile']
    info = {'def': d.id, 'cfg': cfg, 'profile': profile, 'start': r['start'], 'input_hex': data.hex(),
            'input': data.decode('utf8', 'replace'), 'what': f['what'], 'partial': r.get('partial', False)}
    if 'does not return within its step budget' in f['what']:
        # a spinning next(): the plain build (no read trace: the log would grow without bound) under a short timeout
        binary = native_binary(P, name, cfg, profile)
        items, panicked, raw = pipeline.native_run(binary, d.id, data, partial=r.get('partial', False), start=r['start'], timeout=8)
        info['native'] = items
        info['native_panic'] = panicked
        info['mismatch'] = 'native lexer did not finish within 8 s' if panicked == 'timeout' else (
            f'native lexer stopped: {panicked}' if panicked else None)
        if items is not None and any(x[0] != 'none' and x[1] == x[2] for x in items):
            info['mismatch'] = 'native lexer yields empty-span items'
        if raw and 'TOOMANY' in raw:
            info['mismatch'] = 'native lexer yields items without end'
        return (info['mismatch'] is not None), info
    if f.get('prop') == 'C20' or 'C20' in (f.get('props') or ()):
        # read-order failures are only observable with the guarded read-trace hook (--cfg logos_verif)
        key = (name, cfg, profile, 'trace')
        if key not in _native:
            _native[key] = pipeline.build_native(name, P.usable, cfg, profile, trace=True)
        items, panicked, raw = pipeline.native_run(_native[key], d.id, data, partial=r.get('partial', False), start=r['start'])
        reads = pipeline.native_run.last_reads
        info['native'] = items
        info['native_reads'] = reads[:6]
        bad = None
        for k, rs in enumerate(reads):
            offs = [o for o, _ in rs]
            if any(b < a for a, b in zip(offs, offs[1:])):
                bad = f'call #{k}: read offsets decrease: {offs[:24]}'
                break
        if bad is None and 'byte loads go backwards' in f['what']:
            # bytes examined through a multi-byte read and examined again through a later read that starts below them: the
            # native trace shows read operations, not which bytes of a chunk were tested, so the path's claim "byte a was
            # examined, then byte b < a" is confirmed by a read covering a that precedes, in the same call, a read covering b
            # that starts below a
            import re as _re
            m = _re.search(r'\[([0-9, ]+)\]', f['what'])
            lds = [int(x) for x in m.group(1).split(',')] if m else []
            pair = next(((a, b) for a, b in zip(lds, lds[1:]) if b < a), None)
            if pair:
                a, b = pair
                for k, rs in enumerate(reads):
                    succ = [(o, max(1, n)) for o, n in rs if o + max(1, n) <= len(data)]
                    for i, (o, n) in enumerate(succ):
                        if o <= a < o + n and any(o2 <= b < o2 + n2 and o2 < a for o2, n2 in succ[i + 1:]):
                            bad = (f'call #{k}: byte {a} is read by ({o},{n}) and byte {b} is read again afterwards within the same '
                                   f'match attempt: {succ[:16]}')
                            break
                    if bad:
                        break
        if bad is None:
            # read count bound per call (3 * (span of offsets + 1) + 3), items start: no read below the previous end
            prev_end = r['start']
            for k, rs in enumerate(reads):
                offs = [o for o, _ in rs]
                if offs and min(offs) < prev_end:
                    bad = f'call #{k}: read at {min(offs)} below the previous item end {prev_end}'
                    break
                if offs and len(offs) > 3 * (max(offs) - min(offs) + 2) + 3 + 3 * len([1 for _ in rs]) // max(1, len(rs)):
                    bad = f'call #{k}: {len(offs)} reads for offsets {min(offs)}..{max(offs)}'
                    break
                if items and k < len(items) and items[k][0] != 'none':
                    prev_end = items[k][2]
        info['mismatch'] = bad
        return (bad is not None), info
    if 'no callback ran although the winning pattern carries one' in f['what']:
        # a callback that did not run is not visible in a token stream unless it would have rejected, bumped or skipped:
        # the native build with `--cfg cb_log` makes every corpus callback log its invocation and the span it saw
        import re as _re
        key = (name, cfg, profile, 'cblog')
        if key not in _native:
            _native[key] = pipeline.build_native(name, P.usable, cfg, profile, cblog=True)
        items, panicked, raw = pipeline.native_run(_native[key], d.id, data, partial=r.get('partial', False), start=r['start'])
        m = _re.match(r'(skip|token) (\d+)\.\.(\d+)', f['what'])
        cbs = pipeline.native_run.last_cbs
        info['native'] = items
        info['native_callbacks'] = cbs[:12]
        ss, ee = int(m.group(2)), int(m.group(3))
        ran = [c for c in cbs if c[1] == ss]
        conc = ref.Concrete(P.tables[d.id], d.utf8)
        st = conc.step(data, ss) if ss <= len(data) else ('none',)
        info['mismatch'] = None if ran else f'native run: no corpus callback was invoked for the match {ss}..{ee} (callback log: {cbs[:6]})'
        info['reference_step'] = repr(st)[:200]
        return (not ran), info
    binary = native_binary(P, name, cfg, profile)
    ubkind = f['what'].startswith(('out-of-bounds', 'reference to out-of-bounds', 'ptr::add', 'str::get_unchecked',
                                   '<[u8]>::get_unchecked'))
    items, panicked, raw = pipeline.native_run(binary, d.id, data, partial=r.get('partial', False), start=r['start'],
                                               valgrind=ubkind)
    info['native'] = items
    info['native_panic'] = panicked
    conc = ref.Concrete(P.tables[d.id], d.utf8)
    if r.get('partial'):
        # expectation for partial mode is property-specific; the caller decides
        info['expected_full'] = conc.tokens(data)
        return None, info
    exp = []
    t = r['start']
    while True:
        st = conc.step(data, t)
        if st[0] == 'none':
            break
        exp.append(st)
        t = st[3] if st[0] == 'item' else st[2]
    info['expected'] = exp
    if panicked:
        return True, info
    if ubkind:
        return None, info
    # compare streams: kinds and spans; variant names for items
    got = [x for x in (items or []) if x[0] != 'none']
    ok = len(got) == len([e for e in exp if not (e[0] == 'item' and e[1] == ('skip',))])
    gi = 0
    mism = None
    for e in exp:
        if e[0] == 'item' and e[1] == ('skip',):
            continue
        if gi >= len(got):
            mism = f'native stream ends early; expected {e}'
            break
        g = got[gi]
        gi += 1
        if e[0] == 'item':
            vname = d.variants[e[1][1]].name
            if g[0] != 'ok' or (g[1], g[2]) != (e[2], e[3]) or not (g[3] == vname or g[3].startswith(vname + '(')):
                mism = f'native {g} but reference expects Ok({vname}) at {e[2]}..{e[3]}'
                break
        else:
            if g[0] != 'err' or (g[1], g[2]) != (e[1], e[2]):
                if 'cb_err' in d.tags and g[0] == 'err':
                    continue
                mism = f'native {g} but reference expects Err at {e[1]}..{e[2]}'
                break
    if mism is None and not ok:
        mism = f'native produced {len(got)} items, reference {len(exp)}'
    if mism is None and f['what'].startswith('attempt from') and ' examined bytes up to ' in f['what']:
        # over-/under-reading that leaves the token stream intact: confirm the examined offset with the guarded read trace
        import re as _re
        m = _re.match(r'attempt from (\d+) examined bytes up to (\d+)', f['what'])
        key = (name, cfg, profile, 'trace')
        if key not in _native:
            _native[key] = pipeline.build_native(name, P.usable, cfg, profile, trace=True)
        pipeline.native_run(_native[key], d.id, data, partial=r.get('partial', False), start=r['start'])
        reads = pipeline.native_run.last_reads
        info['native_reads'] = reads[:6]
        t0, x = int(m.group(1)), int(m.group(2))
        for k, rs in enumerate(reads):
            ends = [o + max(1, n) - 1 for o, n in rs if o >= t0 and o + max(1, n) <= len(data)]     # successful reads only
            if ends and max(ends) == x:
                mism = f'native call #{k} examined bytes up to {x} (read trace)'
                break
    info['mismatch'] = mism
    return (mism is not None), info


# ----------------------------------------------------------------------------- the lexing family
def lex_family(prop, tier, seed, *, relevant, select, name, cfgs, N, starts, budget, profiles=('dev',),
               partial=False, level='translation_validation', extra_assumptions=(), long_defs=(), long_N=17,
               rule=None, post=None, evidence_hook=None, acceptance=None, release_only=None, stream_defs=(), stream_N=4, cfg_filter=None,
               validate_samples=0):
    ev = report.Evidence(prop, tier, seed, level)
    name = f'{name}-{prop}'      # own crate dir per check: checks may run concurrently
    alld = corpus_defs.all_defs(seed, tier != 'quick')
    defs = select(alld)
    long_runs = list(long_defs) if long_defs and isinstance(long_defs[0], tuple) else [(x, long_N) for x in long_defs]
    have = {d.id for d in defs}
    defs = defs + [d for d in alld if d.id in {x for x, _ in long_runs} and d.id not in have]
    P = prepare(defs, cfgs, name, profiles)
    rc = 0
    if P.no_ref:
        log(f'ENGINE: no reference tables for {[d.id for d in P.no_ref]}')
        rc = 2
    acc_cov = None
    if acceptance is not None:
        arc, acc_cov = acceptance(prop, P, defs, ev)
        rc = max(rc, arc)
    payloads = []
    for d in P.usable:
        for (c, prof), mir in P.progs.items():
            if prof == 'release' and release_only is not None and not release_only(d):
                continue
            if cfg_filter is not None and not cfg_filter(d, c):
                continue
            for s in starts:
                payloads.append(dict(key=f'{d.id}/{c}/{prof}/{s}', d=d, mir=mir, cfg=c, tables=P.tables[d.id], N=N,
                                     start=s, budget=budget, release=(prof == 'release'), partial=partial))
            if d.id in stream_defs and prof == 'dev':
                # whole-stream run (next() until None) as a cross-check of the induction over positions
                payloads.append(dict(key=f'{d.id}/{c}/{prof}/stream', d=d, mir=mir, cfg=c, tables=P.tables[d.id], N=stream_N,
                                     start=0, budget=budget * 3, release=False, partial=partial, stream=True))
            for lid, ln in long_runs:
                if d.id == lid and prof == 'dev':
                    payloads.append(dict(key=f'{d.id}/{c}/{prof}/long{ln}', d=d, mir=mir, cfg=c, tables=P.tables[d.id],
                                         N=ln, Nmin=max(9, ln - 8), start=0, budget=budget * 3, release=False, partial=partial))
    random.Random(seed).shuffle(payloads)
    # heavy tasks first (better packing on the pool): long and whole-stream runs, then the rest in seeded order
    payloads.sort(key=lambda pl: 0 if ('/long' in pl['key'] or pl.get('stream')) else 1)
    t = time.time()
    results = pipeline.run_tasks(task_step, payloads)
    explore_s = round(time.time() - t, 1)
    by_def = {d.id: d for d in P.usable}
    tot = dict(leaves=0, queries=0, cached=0, solver_s=0.0, paths=0, steps=0)
    per_def = {}
    fns, builtins = set(), set()
    fails = []
    samples = []
    kinds = {}
    engine_errors = []
    for st, key, r, wall in results:
        if st != 'ok':
            engine_errors.append((key, r))
            continue
        tot['leaves'] += r['leaves']
        for k in ('queries', 'cached', 'solver_s', 'paths', 'steps'):
            tot[k] += r['stats'][k]
        # largest number of MIR blocks one next() call executed, relative to its budget (6000 + 150 * N)
        tot['cache_mismatch'] = tot.get('cache_mismatch', 0) + r['stats'].get('cache_mismatch', 0)
        mcs = r['stats'].get('max_call_steps', 0)
        tot['max_call_steps'] = max(tot.get('max_call_steps', 0), mcs)
        tot['max_call_fraction'] = max(tot.get('max_call_fraction', 0.0), round(mcs / (6000 + 150 * r['N']), 3))
        pd = per_def.setdefault(r['id'], dict(leaves=0, N=[], cfgs=set(), starts=set(), wall=0.0))
        pd['leaves'] += r['leaves']
        pd['N'].append(r['N'])
        pd['cfgs'].add(r['cfg'] + '@' + r['profile'])
        pd['starts'].add(r['start'])
        pd['wall'] += wall
        fns.update(r['fns'])
        builtins.update(r['builtins'])
        for k, v in r['kinds'].items():
            kinds[k] = kinds.get(k, 0) + v
        for f in r['failures']:
            props = set(f.get('props') or ()) | {f['prop']}
            if props & relevant:
                fails.append((by_def[r['id']], f, r))
        for s in r['samples'][:2]:
            if len(samples) < 12:
                samples.append(dict(s, definition=r['id'], cfg=r['cfg']))
    for key, msg in engine_errors[:5]:
        log(f'ENGINE: {key}: {msg[-600:]}')
    if engine_errors:
        rc = 2
    # ---- translator validation on *passing* leaves: the executor's outcome for a sampled model of a leaf must be what the
    # real build produces for that input (the native replay shares no code with the executor)
    sample_cov = None
    if validate_samples:
        agree = disagree = 0
        for st, key, r, wall in results:
            if st != 'ok' or r.get('partial') or r['failures']:
                continue
            d = by_def[r['id']]
            for smp in r['samples'][:validate_samples]:
                if smp.get('skips') is None or smp['result'][2] is None:
                    continue
                data = bytes.fromhex(smp['input'])[:smp['len']]
                try:
                    items, panicked, raw = pipeline.native_run(native_binary(P, name, r['cfg'], r['profile']), d.id, data,
                                                               start=smp['start'])
                except build.BuildError as e:
                    log('ENGINE: native build for sample validation failed: ' + str(e)[-400:])
                    rc = max(rc, 2)
                    break
                kind, vi, ss, ee = smp['result']
                got = (items or [None])[0]
                ok = got is not None and not panicked and got[0] == kind and (got[1], got[2]) == (ss, ee)
                if ok and kind == 'ok' and isinstance(vi, int) and vi < len(d.variants):
                    vn = d.variants[vi].name
                    ok = got[3] == vn or got[3].startswith(vn + '(')
                if ok:
                    agree += 1
                else:
                    disagree += 1
                    log(f'ENGINE: executor and native build disagree on a passing leaf of {d.id} [{r["cfg"]}@{r["profile"]}] '
                        f'start={smp["start"]} input={data.hex()}: executor {smp["result"]}, native {got} {panicked or ""}')
                    rc = max(rc, 2)
        sample_cov = {'leaves_replayed_natively': agree + disagree, 'agree': agree, 'disagree': disagree}
    # ---- replay & report
    seen = set()
    confirmed = 0
    unconfirmed = 0
    spin_replays = spin_skipped = 0
    benign = []
    for d, f, r in fails:
        sig = (d.id, r['cfg'], f['what'].split(':')[0][:40], r['start'])
        if sig in seen:
            continue
        seen.add(sig)
        if 'does not return within its step budget' in f['what']:
            spin_replays += 1
            if spin_replays > 6:
                spin_skipped += 1        # same kind of failure; every native replay of a spinning lexer costs its timeout
                continue
        try:
            ok, info = confirm_lex_failure(P, name, d, f, r)
        except build.BuildError as e:
            log('ENGINE: native replay build failed: ' + str(e)[-500:])
            rc = max(rc, 2)
            continue
        info['property'] = prop
        if partial and ok is None and not f['what'].startswith(('out-of', 'reference to', 'ptr::add')):
            ok = post(P, d, f, r, info) if post else True
        if ok == 'benign':
            # stricter-than-stated symbolic obligation (a skipped run committed in pieces) without any observable effect on
            # the item stream for the continuations tried: counted in the evidence, neither a violation nor an engine error
            benign.append({'def': d.id, 'cfg': r['cfg'], 'what': f['what'], 'input_hex': info['input_hex'],
                           'confirmation': info.get('confirmation')})
            continue
        if ok is False:
            unconfirmed += 1
            log(f'ENGINE: model for `{f["what"]}` on {d.id}/{r["cfg"]} did not reproduce natively '
                f'(input {info["input_hex"]}): encoding error, not a violation')
            rc = max(rc, 2)
            continue
        confirmed += 1
        role = {'definition': d.id, 'what': f['what'].split(' at ')[0][:60]}
        nm = hashlib.sha1(json.dumps([d.id, r['cfg'], f['what'], info['input_hex']]).encode()).hexdigest()[:12]
        v = known_or_violation(prop, role, f'{d.id} [{r["cfg"]}@{r["profile"]}] start={r["start"]} input={info["input_hex"]}: '
                               f'{f["what"]}' + (f' | {info.get("mismatch")}' if info.get('mismatch') else '')
                               + ('' if ok else ' (UB on the executed path; not observable natively)'),
                               info, ev, nm)
        rc = max(rc, v)
    # ---- evidence
    nontrivial = sum(v for k, v in kinds.items() if k not in ('none',))
    ev.coverage = {
        'programs': len(P.usable) * len(P.progs),
        'definitions': sorted(per_def),
        'configurations': sorted(f'{c}@{p}' for c, p in P.progs),
        'disagreements_checked': tot['leaves'],
        'evaluations': tot['leaves'],
        'distinct_nontrivial': nontrivial,
        'rule': rule or ('one case = one leaf of the symbolic execution tree of Lexer::next() (a class of inputs sharing a '
                         'path); non-trivial = the path yields a token, a skip or an error (not the immediate None)'),
        'leaf_kinds': kinds,
        'samples': samples,
        'bounds': {'N_bytes_max': N, 'starts': list(starts), 'per_definition': {k: {'N_reached': sorted(set(v['N'])),
                   'leaves': v['leaves'], 'cfgs': sorted(v['cfgs']), 'wall_s': round(v['wall'], 1)} for k, v in per_def.items()},
                   'long_runs': [list(x) for x in long_runs], 'whole_stream_runs': {'definitions': sorted(set(stream_defs) & set(per_def)), 'N': stream_N} if stream_defs else None,
                   'outside': 'inputs longer than N bytes; definitions outside the corpus; rustc/LLVM lowering after MIR'},
        'queries_discharged': tot['queries'], 'queries_reused_on_replay': tot['cached'],
        'replay_cache_mismatches': tot.get('cache_mismatch', 0), 'solver_s': round(tot['solver_s'], 1),
        'paths': tot['paths'], 'mir_blocks_executed': tot['steps'], 'max_blocks_in_one_next': tot.get('max_call_steps', 0),
        'max_fraction_of_call_step_budget': tot.get('max_call_fraction', 0.0),
        'functions_encoded': sorted(fns)[:400], 'functions_encoded_count': len(fns), 'stubs': sorted(builtins),
        'failures_confirmed_natively': confirmed, 'models_not_reproduced': unconfirmed,
        'spinning_models_not_replayed': spin_skipped, 'passing_leaf_samples_vs_native': sample_cov,
        'skip_commits_without_observable_effect': benign[:10],
        'unexpected_verdicts': [d.id for d in P.unexpected],
        'build_s': P.build_s, 'prepare_s': P.prep_s, 'explore_s': explore_s,
        'checker_cmd': f'./check {prop} --tier {tier}',
        'explanation': 'bounded symbolic execution of the exported MIR (generated lexer + logos runtime) with z3; every leaf '
                       'obligation PC => property discharged as an unsat query against independently built reference DFAs',
    }
    ev.assumptions = ['inputs of at most N bytes (len symbolic 0..=N)', 'str sources hold valid UTF-8 (z3 constraint)',
                      'core builtins listed under stubs behave as documented', 'MIR as exported by rustc nightly'] + list(
        extra_assumptions)
    if P.unexpected:
        log(f'NOTE: derive verdict differs from corpus expectation for {[d.id for d in P.unexpected]} '
            f'(decided by C03/C04/C08/C11 checks)')
    if tot['leaves'] == 0:
        rc = max(rc, 2)
    if ev.violations > 0:
        rc = 1          # a natively reproduced violation decides the run, even if other models did not reproduce
    if acc_cov is not None:
        ev.coverage['acceptance'] = acc_cov
    if evidence_hook is not None:
        evidence_hook['coverage'] = ev.coverage
        evidence_hook['ev'] = ev
    else:
        ev.write()
    log(f'{prop} {tier}: {len(P.usable)} definitions x {len(P.progs)} configurations, {tot["leaves"]} leaves, '
        f'{tot["queries"]} queries, solver {tot["solver_s"]:.1f}s, explore {explore_s}s, '
        f'max {tot.get("max_call_steps", 0)} blocks in one next() ({tot.get("max_call_fraction", 0.0)} of its budget), rc={rc}')
    return rc


def tier_params(tier):
    if tier == 'quick':
        return dict(cfgs=CFG_QUICK, N=6, starts=(0, 1, 3), budget=45)
    return dict(cfgs=CFG_ALL, N=8, starts=(0, 1, 2, 4), budget=150)


def sel_tags(*tags, quick_only=False):
    def f(defs):
        out = [d for d in defs if d.expect == 'accept' and (not tags or any(t in d.tags for t in tags))]
        if quick_only:
            out = [d for d in out if 'quick' in d.tags]
        return out
    return f


def sel_for(tier, *tags):
    if tier == 'quick':
        def f(defs):
            out = [d for d in defs if d.expect == 'accept' and 'quick' in d.tags]
            if tags:
                extra = [d for d in defs if d.expect == 'accept' and any(t in d.tags for t in tags) and d not in out]
                out += extra[:6]
            return out
        return f
    return sel_tags()


def sel_with(sel, *tags):
    def f(defs):
        out = sel(defs)
        have = {d.id for d in out}
        return out + [d for d in defs if d.expect == 'accept' and any(t in d.tags for t in tags) and d.id not in have]
    return f


LONG_QUICK = (('kw_ident', 17), ('long_loop', 72), ('neg_loop_bytes', 20), ('long_ident', 20), ('long_float', 20), ('long_skip', 20), ('long_lit', 20))
LONG_THOROUGH = (('kw_ident', 17), ('holes', 17), ('long_loop', 72), ('long_loop', 136), ('neg_loop_bytes', 28),
                 ('long_ident', 28), ('long_float', 20), ('long_skip', 28), ('long_lit', 24))
# (definitions with loops over multi-byte characters or several interacting loops -- strings, numbers, nested_rep1, skips --
# were tried at 17-20 bytes: their path count is exponential in the run length, they used 60 % of the thorough tier's time
# only to fall back to 9-13 bytes; they stay at the tier's N)


def c01(tier, seed):
    tp = tier_params(tier)
    if tier != 'quick':
        # second opinion: a sample of the queries is exported and re-decided by cvc5 and the system z3
        import shutil
        d = os.path.join(build.WORK, 'smt-export-C01')
        shutil.rmtree(d, ignore_errors=True)
        os.environ['VERIF_EXPORT_SMT'] = d
    hook = {}
    # the whole byte-class x state-shape family runs in both tiers of C01 (the other checks take its `quick` subset)
    rc = lex_family('C01', tier, seed, relevant={'C01'}, select=sel_with(sel_for(tier), 'cls'), name='lex',
                    long_defs=(('long_loop', 40), ('long_ident', 20), ('long_float', 20), ('long_skip', 20), ('long_lit', 20)) if tier == 'quick' else LONG_THOROUGH, evidence_hook=hook,
                    validate_samples=3, **tp)
    ev = hook['ev']
    if tier != 'quick':
        from . import crosscheck
        os.environ.pop('VERIF_EXPORT_SMT', None)
        cc = crosscheck.run(d)
        ev.coverage['solver_cross_check'] = cc
        log(f'C01 solver cross-check: {cc["queries"]} exported queries, cvc5 agrees on {cc["cvc5_agree"]}, z3 4.8.12 on '
            f'{cc["z3_4_8_agree"]}, {len(cc["disagreements"])} disagreements, {len(cc["errors"])} errors')
        if cc['disagreements'] or cc['errors']:
            log('ENGINE: solver cross-check: ' + str((cc['disagreements'] + cc['errors'])[:3]))
            rc = max(rc, 2) if rc != 1 else rc
    ev.write()
    return rc


def c02(tier, seed):
    tp = tier_params(tier)
    # long runs: consumption and error-span obligations where block-wise loops (8/16-byte chunks) come into play
    return lex_family('C02', tier, seed, relevant={'C02'}, select=sel_for(tier, 'unicode'), name='lex',
                      long_defs=(('long_loop', 24), ('neg_loop_bytes', 20), ('long_ident', 20), ('long_float', 20), ('long_skip', 20), ('long_lit', 20)) if tier == 'quick' else LONG_THOROUGH, **tp)


def with_rejects(sel, *tags):
    def f(defs):
        return sel(defs) + [d for d in defs if d.expect == 'reject' and any(t in d.tags for t in tags)]
    return f


STREAM_QUICK = ('nested_prefix', 'eoi_dollar', 'polish', 'maybe_end', 'neg_bytes', 'word_boundary')
STREAM_THOROUGH = STREAM_QUICK + ('kw_ident', 'skips', 'punct', 'cb_unit', 'look_str', 'bytes_basic', 'icase', 'subpat')


def c03(tier, seed):
    from .accept_checks import acceptance_empty
    tp = tier_params(tier)
    return lex_family('C03', tier, seed, relevant={'C03'}, select=with_rejects(sel_for(tier), 'empty'), name='lex',
                      acceptance=acceptance_empty, stream_defs=STREAM_QUICK if tier == 'quick' else STREAM_THOROUGH,
                      stream_N=4 if tier == 'quick' else 5,
                      long_defs=(('long_loop', 24), ('long_ident', 20), ('long_float', 20), ('long_skip', 20), ('long_lit', 20)) if tier == 'quick' else LONG_THOROUGH, **tp)


def c04(tier, seed):
    tp = tier_params(tier)
    from .accept_checks import acceptance_utf8
    return lex_family('C04', tier, seed, relevant={'C04'},
                      select=with_rejects(lambda ds: [d for d in sel_for(tier, 'unicode')(ds) if d.utf8], 'nonutf8'), name='lex',
                      acceptance=acceptance_utf8, long_defs=(('long_ident', 20), ('long_float', 20), ('long_skip', 20), ('long_lit', 20),) if tier == 'quick' else (('long_ident', 28), ('long_float', 20), ('long_skip', 28), ('long_lit', 24)),
                      **tp)


def c05(tier, seed):
    from . import runtime_checks
    tp = tier_params(tier)
    tp['cfgs'] = ['tc-unsafe', 'sm-unsafe', 'tc-safe'] if tier == 'quick' else CFG_ALL
    hook = {}
    if tier == 'quick':
        tp['starts'] = (0, 3)
        tp['cfg_filter'] = lambda d, c: c != 'sm-unsafe' or ('loop' in d.tags or 'look' in d.tags)
    rc = lex_family('C05', tier, seed, relevant={'C05'}, select=sel_for(tier, 'loop'), name='lex', validate_samples=2,
                    long_defs=LONG_QUICK if tier == 'quick' else LONG_THOROUGH,
                    profiles=('dev', 'release'), release_only=(lambda d: 'look' in d.tags) if tier == 'quick' else None,
                    evidence_hook=hook, **tp)
    ev = hook['ev']
    # (b) the public Source::read contract, offset a free 64-bit vector
    results = runtime_checks.read_contract(tier, ev.coverage)
    cases = {}
    q = 0
    for st, key, r, wall in results:
        if st != 'ok':
            log(f'ENGINE: {key}: {str(r)[-500:]}')
            rc = max(rc, 2)
            continue
        cases[key] = r['stats']
        q += r['engine']['queries']
        seen = set()
        for f in r['failures']:
            if f['what'][:40] in seen:
                continue
            seen.add(f['what'][:40])
            m = f['model']
            info = {'property': 'C05', 'case': key, 'what': f['what'], 'model': m,
                    'repro': f'<{key.split("/")[1]} as logos::Source>::read::<chunk of {key.split("/")[2]}>(source = {bytes(m["bytes"]).hex()}, '
                             f'offset = {m.get("vars", {}).get("offset")})'}
            rc = max(rc, known_or_violation('C05', {'function': 'Source::read', 'what': f['what'][:40]},
                                            f'{key}: {f["what"]} (len={m["len"]}, offset={m.get("vars", {}).get("offset")})', info, ev,
                                            'read-' + key.replace('/', '-')))
    rc = max(rc, kani_cross_check('C05', ev, ['read_u8', 'read_a1', 'read_a2', 'read_a4', 'read_a8', 'read_str_a4']))
    if ev.violations > 0:
        rc = 1
    ev.coverage['source_read_contract'] = {'cases': cases, 'queries': q, 'bounds': 'len <= 9, offset any 64-bit value, chunk sizes 1/2/4/8, '
                                           'str and [u8], default and forbid_unsafe' + ('' if tier == 'quick' else ', dev and release')}
    ev.write()
    log(f'C05 read contract: {len(cases)} cases, {q} queries, rc={rc}')
    return rc


def kani_cross_check(prop, ev, harnesses):
    """K: CBMC on the compiled runtime (pointer checks on the unsafe blocks); failures are replayed natively with
    Kani's concrete playback before being reported"""
    from . import kani_checks
    rc = 0
    out = {}
    for feats in ((), ('forbid_unsafe',)):
        r = kani_checks.run_kani(harnesses, feats)
        tag = '+'.join(feats) or 'default'
        out[tag] = {'wall_s': r.get('wall_s'), 'verified': r.get('ok'), 'failed': r.get('failures'),
                    'harnesses': {k: {'status': v['status'], 'checks': v['checks'], 's': v['time_s']} for k, v in r.get('harnesses', {}).items()}}
        if r.get('error') or r.get('ok') is None:
            log(f'ENGINE: kani [{tag}]: {r.get("error")} {r.get("raw_tail", "")[-400:]}')
            rc = max(rc, 2)
            continue
        for name, h in r['harnesses'].items():
            if h['status'] == 'FAILED':
                if h.get('playback_reproduced'):
                    info = {'property': prop, 'engine': 'kani', 'harness': name, 'features': list(feats), 'failed_checks': h['failed_checks'],
                            'playback': h.get('playback_tail'), 'repro': f'cd /verif/kani && cargo kani --harness {name.split("::")[-1]}'}
                    rc = max(rc, known_or_violation(prop, {'engine': 'kani', 'harness': name.split('::')[-1]},
                                                    f'kani harness {name} [{tag}] fails: {h["failed_checks"][:2]}', info, ev,
                                                    'kani-' + name.split('::')[-1] + '-' + tag))
                else:
                    log(f'ENGINE: kani harness {name} [{tag}] failed but concrete playback did not reproduce it')
                    rc = max(rc, 2)
    ev.coverage['kani'] = out
    return rc


def c20(tier, seed):
    tp = tier_params(tier)
    # partial lexers read the source through the same generated code plus their own guards: the read discipline is
    # checked in that mode too, on the looping definitions
    sel = sel_for(tier, 'backtrack')
    hook_p = {}
    tpp = dict(tp)
    if tier == 'quick':
        tpp['starts'] = (0, 1)
    rcp = lex_family('C20', tier, seed, relevant={'C20'}, select=lambda ds: [d for d in sel(ds) if 'loop' in d.tags], name='lexp',
                     partial=True, long_defs=(('long_ident', 20), ('long_float', 20), ('long_loop', 24), ('long_lit', 20)), evidence_hook=hook_p, **tpp)
    hook = {}
    rc = lex_family('C20', tier, seed, relevant={'C20'}, select=sel, name='lex',
                    long_defs=(('long_loop', 72), ('neg_loop_bytes', 20), ('long_ident', 24), ('long_float', 20), ('long_skip', 24), ('long_lit', 20)) if tier == 'quick' else
                    (('long_loop', 72), ('long_loop', 136), ('kw_ident', 17), ('neg_loop_bytes', 28), ('long_ident', 28), ('long_float', 20), ('long_skip', 28), ('long_lit', 24)),
                    evidence_hook=hook, **tp)
    ev = hook['ev']
    cp = hook_p.get('coverage', {})
    ev.coverage['partial_mode'] = {k: cp.get(k) for k in ('programs', 'definitions', 'configurations', 'evaluations', 'leaf_kinds',
                                                            'queries_discharged', 'solver_s', 'paths', 'failures_confirmed_natively',
                                                            'models_not_reproduced')}
    ev.coverage['evaluations'] = (ev.coverage.get('evaluations') or 0) + (cp.get('evaluations') or 0)
    ev.violations += hook_p['ev'].violations
    ev.write()
    if ev.violations > 0:
        return 1
    return max(rc, rcp)


from .runtime_checks import c15  # noqa: E402

REGISTRY = {'C15': c15, 'C01': c01, 'C02': c02, 'C03': c03, 'C04': c04, 'C05': c05, 'C20': c20}


# ----------------------------------------------------------------------------- C13 callbacks
def c13(tier, seed):
    tp = tier_params(tier)
    return lex_family('C13', tier, seed, relevant={'C13'}, name='lex', validate_samples=3,
                      select=lambda ds: [d for d in ds if 'cb' in d.tags and d.expect == 'accept'], **tp)


# ----------------------------------------------------------------------------- C06 / C12 joint explorations
def task_pair(pl):
    from . import joint
    progA = pipeline.load_program(pl['mirA'])
    progB = pipeline.load_program(pl['mirB'])
    N = pl['N']
    while True:
        try:
            r = joint.explore_pair(progA, progB, pl['d'], N, pl['start'], budget=pl.get('budget'), release=pl.get('release', False),
                                   partial=pl.get('partial', False))
            break
        except EngineError as e:
            if 'time budget' in str(e) and N > pl.get('Nmin', 3):
                N -= 1 if N <= 6 else 2
                continue
            raise
    r.update(id=pl['d'].id, pair=pl['pair'], start=pl['start'], N=N, partial=pl.get('partial', False))
    return r


def task_twins(pl):
    from . import joint
    prog = pipeline.load_program(pl['mir'])
    N = pl['N']
    while True:
        try:
            r = joint.explore_twins(prog, pl['d'], pl['twin'], N, pl['start'], budget=pl.get('budget'))
            break
        except EngineError as e:
            if 'time budget' in str(e) and N > 3:
                N -= 1
                continue
            raise
    r.update(id=pl['d'].id, pair=pl['cfg'], start=pl['start'], N=N)
    return r


def native_stream(P, name, defs, d, cfg, data, start, profile='dev', partial=False):
    key = (name, cfg, profile)
    if key not in _native:
        _native[key] = pipeline.build_native(name, defs, cfg, profile)
    return pipeline.native_run(_native[key], d.id, data, start=start, partial=partial)


def joint_report(prop, tier, seed, results, ev, confirm, n_defs, n_cfg, explanation, extra_cov=None):
    rc = 0
    tot = dict(leaves=0, queries=0, solver_s=0.0, paths=0)
    kinds = {}
    fns, stubs = set(), set()
    samples = []
    per = {}
    confirmed = 0
    depth = {}
    for st, key, r, wall in results:
        if st != 'ok':
            log(f'ENGINE: {key}: {str(r)[-700:]}')
            rc = 2
            continue
        tot['leaves'] += r['leaves']
        tot['queries'] += r['stats']['queries']
        tot['solver_s'] += r['stats']['solver_s']
        tot['paths'] += r['stats']['paths']
        for k, v in r['kinds'].items():
            kinds[k] = kinds.get(k, 0) + v
        fns.update(r['fns'])
        stubs.update(r['builtins'])
        pd = per.setdefault(r['id'], dict(leaves=0, N=set(), pairs=set()))
        pd['leaves'] += r['leaves']
        pd['N'].add(r['N'])
        pd['pairs'].add(str(r['pair']))
        samples += [dict(s, definition=r['id']) for s in r['samples'][:1]]
        if 'depthB' in r and r['depthB']:
            dd = depth.setdefault((r['id'], str(r['pair'])), {})
            dd[r['N']] = (max(r['depthA']), max(r['depthB']))
        seen = set()
        for f in r['failures']:
            sig = f['what'][:60]
            if sig in seen:
                continue
            seen.add(sig)
            if "('spin',)" in f['what']:
                # every native replay of a spinning lexer costs its full timeout: replay the first few, count the rest
                spins = getattr(joint_report, '_spins', 0)
                joint_report._spins = spins + 1
                if spins >= 6:
                    ev.coverage_extra = getattr(ev, 'coverage_extra', {})
                    ev.coverage_extra['spinning_models_not_replayed'] = ev.coverage_extra.get('spinning_models_not_replayed', 0) + 1
                    continue
            ok, info = confirm(r, f)
            if ok is False:
                log(f'ENGINE: model did not reproduce natively on {r["id"]}: {f["what"][:200]}')
                rc = max(rc, 2)
                continue
            confirmed += 1
            nm = hashlib.sha1(json.dumps([r['id'], str(r['pair']), f['what']]).encode()).hexdigest()[:12]
            role = {'definition': r['id']}
            rc = max(rc, known_or_violation(prop, role, f'{r["id"]} {r["pair"]} start={r["start"]} '
                                            f'input={bytes(f["model"]["bytes"]).hex()}: {f["what"][:300]}', info, ev, nm))
    ev.coverage = {
        'programs': n_defs * n_cfg, 'disagreements_checked': tot['leaves'], 'evaluations': tot['leaves'],
        'distinct_nontrivial': sum(v for k, v in kinds.items() if k != 'none'),
        'rule': 'one case = one leaf of the joint execution tree (both programs on the same symbolic input); non-trivial = not the '
                'immediate None',
        'samples': samples[:10], 'leaf_kinds': kinds,
        'bounds': {'per_definition': {k: {'leaves': v['leaves'], 'N_reached': sorted(v['N']), 'pairs': sorted(v['pairs'])}
                                      for k, v in per.items()},
                   'outside': 'inputs longer than N bytes; definitions outside the corpus'},
        'queries_discharged': tot['queries'], 'solver_s': round(tot['solver_s'], 1), 'paths': tot['paths'],
        'functions_encoded_count': len(fns), 'functions_encoded': sorted(fns)[:300], 'stubs': sorted(stubs),
        'failures_confirmed_natively': confirmed, 'checker_cmd': f'./check {prop} --tier {tier}', 'explanation': explanation,
    }
    if extra_cov:
        ev.coverage.update(extra_cov)
    ev.coverage.update(getattr(ev, 'coverage_extra', {}))
    ev.assumptions = ['inputs of at most N bytes', 'valid UTF-8 for str sources', 'core builtins (stubs)']
    if tot['leaves'] == 0:
        rc = max(rc, 2)
    return rc, depth


def c06(tier, seed):
    ev = report.Evidence('C06', tier, seed, 'translation_validation')
    tp = tier_params(tier)
    pairs = [('tc-unsafe', 'sm-unsafe')] if tier == 'quick' else [('tc-unsafe', 'sm-unsafe'), ('tc-safe', 'sm-safe')]
    defs = [d for d in corpus_defs.all_defs() if d.expect == 'accept' and ('quick' in d.tags or tier != 'quick' or
                                                                       d.id in ('long_loop', 'long_ident', 'long_float', 'long_skip', 'long_lit', 'neg_loop_bytes'))]
    cfgs = sorted({c for p in pairs for c in p})
    P = prepare(defs, cfgs, 'lex-C06')
    payloads = []
    for d in P.usable:
        for a, b in pairs:
            for s in tp['starts']:
                payloads.append(dict(key=f'{d.id}/{a}~{b}/{s}', d=d, mirA=P.progs[(a, 'dev')], mirB=P.progs[(b, 'dev')],
                                     pair=(a, b), N=tp['N'], start=s, budget=tp['budget']))
    # partial lexers (new_partial over a symbolic prefix): the two generators must also agree on when to return None
    # at the end of a prefix; looping, look-around and skip-carrying definitions, two start positions
    part_defs = [d for d in P.usable if ('loop' in d.tags or 'look' in d.tags or d.skips) and 'long' not in d.tags]
    if tier == 'quick':
        part_defs = [d for d in part_defs if 'quick' in d.tags]
    for d in part_defs:
        a, b = pairs[0]
        for s in (0, 1) if tier == 'quick' else (0, 1, 3):
            payloads.append(dict(key=f'{d.id}/{a}~{b}/partial{s}', d=d, mirA=P.progs[(a, 'dev')], mirB=P.progs[(b, 'dev')],
                                 pair=(a, b), N=tp['N'], start=s, budget=tp['budget'], partial=True))
    # long runs (one next() from 0 over 20-24 symbolic bytes): the 8/16-byte blocks of the fast loops in both generators
    long_pairs = (('long_loop', 24), ('long_ident', 20), ('long_float', 20), ('long_skip', 20), ('long_lit', 20), ('neg_loop_bytes', 20)) if tier == 'quick' else \
        (('long_loop', 40), ('long_ident', 28), ('long_float', 20), ('long_skip', 28), ('long_lit', 24), ('neg_loop_bytes', 28), ('kw_ident', 17))
    for lid, ln in long_pairs:
        for d in P.usable:
            if d.id == lid:
                a, b = pairs[0]
                payloads.append(dict(key=f'{d.id}/{a}~{b}/long{ln}', d=d, mirA=P.progs[(a, 'dev')], mirB=P.progs[(b, 'dev')],
                                     pair=(a, b), N=ln, Nmin=max(9, ln - 8), start=0, budget=tp['budget'] * 3))
    # stack depth probes: the same definitions at a smaller and a larger bound
    depth_defs = [d for d in P.usable if d.id in ('kw_ident', 'skips', 'cb_unit')]
    for d in depth_defs:
        for n in (3, 5) if tier == 'quick' else (3, 5, 8):
            payloads.append(dict(key=f'{d.id}/depth/{n}', d=d, mirA=P.progs[(pairs[0][0], 'dev')],
                                 mirB=P.progs[(pairs[0][1], 'dev')], pair=('depth', n), N=n, start=0, budget=tp['budget'] * 2))
    random.Random(seed).shuffle(payloads)
    results = pipeline.run_tasks(task_pair, payloads)

    def confirm(r, f):
        d = [x for x in P.usable if x.id == r['id']][0]
        data = bytes(f['model']['bytes'])
        a, b = r['pair'] if r['pair'][0] != 'depth' else pairs[0]
        ia, pa, _ = native_stream(P, 'lex-C06', P.usable, d, a, data, r['start'], partial=r.get('partial', False))
        ib, pb, _ = native_stream(P, 'lex-C06', P.usable, d, b, data, r['start'], partial=r.get('partial', False))
        info = {'property': 'C06', 'def': d.id, 'cfg': a, 'cfg_b': b, 'start': r['start'], 'input_hex': data.hex(), 'partial': r.get('partial', False),
                'what': f['what'], 'native_a': ia, 'native_b': ib, 'panic_a': pa, 'panic_b': pb}
        return (ia != ib or pa != pb), info

    rc, depth = joint_report('C06', tier, seed, results, ev, confirm, len(P.usable), len(cfgs),
                             'joint symbolic execution of the tail-call and the state-machine lexer (exported MIR of both builds) '
                             'on one path tree: per leaf the results, spans, skip regions and callback invocation logs must be equal')
    # stack: call depth of the state-machine lexer must not grow with N (nor with the number of skips)
    growth = {}
    for (did, pair), byN in depth.items():
        if not pair.startswith("('depth'"):
            continue
        growth.setdefault(did, {})[eval(pair)[1]] = byN[eval(pair)[1]] if eval(pair)[1] in byN else list(byN.values())[0]
    for did, g in growth.items():
        smd = [v[1] for k, v in sorted(g.items())]
        if len(set(smd)) > 1:
            role = {'definition': did, 'what': 'stack depth grows'}
            rc = max(rc, known_or_violation('C06', role, f'state-machine lexer call depth grows with input bound on {did}: {g}',
                                            {'property': 'C06', 'depths': {str(k): v for k, v in g.items()}}, ev, 'depth-' + did))
    # static side condition: no recursion reachable from the state-machine lex
    cyc = callgraph_cycles(pipeline.load_program(P.progs[(pairs[0][1], 'dev')]))
    if cyc:
        rc = max(rc, known_or_violation('C06', {'what': 'recursion'}, f'state-machine build has recursive calls: {cyc[:3]}',
                                        {'property': 'C06', 'cycles': cyc[:10]}, ev, 'recursion'))
    ev.coverage['call_depth_by_bound'] = {k: {str(n): {'tailcall': v[0], 'state_machine': v[1]} for n, v in g.items()}
                                          for k, g in growth.items()}
    ev.coverage['state_machine_call_graph_cycles'] = len(cyc)
    ev.write()
    log(f'C06 {tier}: {ev.coverage["evaluations"]} joint leaves, rc={rc}')
    return rc


def callgraph_cycles(prog):
    """cycles among functions of the corpus crate's generated lexers (state-machine build must have none)"""
    g = {}
    for k, f in prog.fns.items():
        if not f or not f['body'] or '::lex' not in f['name']:
            continue
        outs = set()
        for bb in f['body']['blocks']:
            t = bb['t']
            if t[0] == 'call' and isinstance(t[1]['fn'], str):
                outs.add(t[1]['fn'])
        g[k] = outs
    cycles = []
    color = {}

    def dfs(u, stack):
        color[u] = 1
        for v in g.get(u, ()):
            if v not in g:
                continue
            if color.get(v) == 1:
                cycles.append([prog.fns[x]['name'] for x in stack[stack.index(v):] + [v]] if v in stack else [prog.fns[v]['name']])
            elif color.get(v) is None:
                dfs(v, stack + [v])
        color[u] = 2
    for u in g:
        if color.get(u) is None:
            dfs(u, [u])
    return cycles


def make_twin(d):
    """the utf8 = false twin of a str-mode definition (same patterns, same literals)"""
    import copy
    t = copy.deepcopy(d)
    t.id = d.id + '_b'
    t.utf8 = False
    return t


def c12(tier, seed):
    ev = report.Evidence('C12', tier, seed, 'translation_validation')
    tp = tier_params(tier)
    base = [d for d in corpus_defs.all_defs() if d.expect == 'accept' and d.utf8 and 'cb' not in d.tags
            and not any(v.field for v in d.variants) and ('quick' in d.tags or 'unicode' in d.tags or tier != 'quick')]
    twins = {d.id: make_twin(d) for d in base}
    # second sentence of the property: a pattern that can match invalid UTF-8 is accepted only with utf8 = false --
    # every such definition of the corpus must be rejected as it stands and accepted as its byte-mode twin
    nonutf8 = [d for d in corpus_defs.all_defs() if d.expect == 'reject' and 'nonutf8' in d.tags and d.utf8]
    ntwins = {d.id: make_twin(d) for d in nonutf8}
    for t in ntwins.values():
        t.expect = 'accept'
    alld = base + list(twins.values()) + nonutf8 + list(ntwins.values())
    cfgs = ['tc-unsafe'] if tier == 'quick' else ['tc-unsafe', 'sm-safe']
    P = prepare(alld, cfgs, 'lex-C12')
    usable = {d.id for d in P.usable}
    payloads = []
    for d in base:
        if d.id not in usable or twins[d.id].id not in usable:
            continue
        for c in cfgs:
            for s in tp['starts']:
                payloads.append(dict(key=f'{d.id}/{c}/{s}', d=d, twin=twins[d.id], mir=P.progs[(c, 'dev')], cfg=c, N=tp['N'],
                                     start=s, budget=tp['budget']))
    random.Random(seed).shuffle(payloads)
    results = pipeline.run_tasks(task_twins, payloads)

    def confirm(r, f):
        d = [x for x in base if x.id == r['id']][0]
        data = bytes(f['model']['bytes'])
        ia, pa, _ = native_stream(P, 'lex-C12', P.usable, d, r['pair'], data, r['start'])
        ib, pb, _ = native_stream(P, 'lex-C12', P.usable, twins[d.id], r['pair'], data, r['start'])
        info = {'property': 'C12', 'def': d.id, 'cfg': r['pair'], 'start': r['start'], 'input_hex': data.hex(),
                'what': f['what'], 'native_str': ia, 'native_bytes': ib}

        def norm(items):
            oks = [(x[1], x[2], x[3]) for x in (items or []) if x[0] == 'ok']
            errb = set()
            for x in (items or []):
                if x[0] == 'err':
                    errb.update(range(x[1], x[2]))
            return oks, errb
        return (norm(ia) != norm(ib) or pa != pb), info

    rc, _ = joint_report('C12', tier, seed, results, ev, confirm, len(base), len(cfgs),
                         'a str-mode definition and its utf8=false twin (both compiled by the real derive into one crate) are '
                         'executed on the same symbolic valid-UTF-8 input: equal Ok tokens and spans, equal bytes covered by errors')
    # acceptance side: a str-mode definition whose twin differs in acceptance
    for d in base:
        if (d.id in usable) != (twins[d.id].id in usable):
            rc = max(rc, known_or_violation('C12', {'definition': d.id, 'what': 'acceptance'},
                                            f'{d.id}: accepted in one mode only', {'property': 'C12', 'def': d.id}, ev, 'acc-' + d.id))
    for d in nonutf8:
        vs, vb = P.verdicts[d.id]['status'], P.verdicts[ntwins[d.id].id]['status']
        if vs == 'accepted' or vb != 'accepted':
            rc = max(rc, known_or_violation('C12', {'definition': d.id, 'what': 'non-utf8 acceptance'},
                                            f'{d.id}: a pattern that can match invalid UTF-8 is {vs} in str mode and {vb} with utf8 = false '
                                            f'(expected: rejected / accepted)', {'property': 'C12', 'def': d.id, 'str_mode': vs,
                                                                                 'byte_mode': vb, 'source': corpus.render_enum(d)}, ev, 'nonutf8-' + d.id))
    ev.coverage['non_utf8_definitions_checked'] = [d.id for d in nonutf8]
    ev.write()
    log(f'C12 {tier}: {ev.coverage["evaluations"]} joint leaves over {len(base)} twin pairs, {len(nonutf8)} non-UTF-8 definitions, rc={rc}')
    return rc


REGISTRY.update({'C06': c06, 'C12': c12, 'C13': c13})


def c10(tier, seed):
    tp = tier_params(tier)
    thorough = tier != 'quick'
    fam = corpus_defs.literal_family(seed, thorough)
    return lex_family('C10', tier, seed, relevant={'C01', 'C02'}, select=lambda ds: fam, name='lex', validate_samples=2, **tp)


def c11(tier, seed):
    from .accept_checks import acceptance_subpattern
    tp = tier_params(tier)
    fam = corpus_defs.subpattern_family() + [d for d in corpus_defs.core() + corpus_defs.reject_core() if 'subpat' in d.tags]
    return lex_family('C11', tier, seed, relevant={'C01', 'C02'}, select=lambda ds: fam, name='lex', validate_samples=2,
                      acceptance=acceptance_subpattern, **tp)


from .accept_checks import c08, c09, c18  # noqa: E402
REGISTRY.update({'C08': c08, 'C09': c09, 'C10': c10, 'C11': c11, 'C18': c18})


# ----------------------------------------------------------------------------- C07 partial lexing
def partial_post(P, d, f, r, info):
    """native confirmation of a partial-mode failure: run the real partial lexer on the model's prefix and look for
    a concrete continuation that changes a committed item / check that None was returned"""
    data = bytes.fromhex(info['input_hex'])
    native = info.get('native') or []
    conc = ref.Concrete(P.tables[d.id], d.utf8)
    if info.get('native_panic'):
        return True
    committed = [x for x in native if x[0] != 'none']
    if 'returned None' in f['what']:
        # the real lexer must indeed stop with None before the end
        nn = [x for x in native if x[0] == 'none']
        info['confirmation'] = 'native partial lexer returned None at %s' % (nn[0][1:] if nn else None,)
        return bool(nn) and nn[0][1] < len(data) + 1
    if 'span after None' in f['what']:
        nn = [x for x in native if x[0] == 'none']
        info['confirmation'] = 'native partial lexer reports span %s after None' % (nn[0][1:3] if nn else None,)
        return bool(nn) and nn[0][1] != nn[0][2]
    if 'committed' in f['what']:
        # the property, literally: for some continuation of the prefix, the items committed before None followed by the
        # items an ordinary lexer yields from the position reported at None differ from the one-shot lexing of the whole
        # input.  (A skip that is committed in two pieces without changing any item is not a violation: it is counted, not
        # reported.)
        start = r['start']
        nn = [x for x in native if x[0] == 'none']
        resume = nn[0][1] if nn else len(data)
        binary = native_binary(P, 'lex-C07', r['cfg'], r['profile'])
        alphabet = sorted(set(data) | {0x20, 0x61, 0x30, 0x0a, 0x2f, 0x3b})
        import itertools as it

        def exp_items(full):
            out, t = [], start
            while True:
                st = conc.step(full, t)
                if st[0] == 'none':
                    return out
                if st[0] == 'item':
                    if st[1] != ('skip',):
                        out.append(('ok', st[2], st[3], d.variants[st[1][1]].name))
                    t = st[3]
                else:
                    out.append(('err', st[1], st[2], None))
                    t = st[2]

        def same(g, e):
            if g[0] != e[0] or (g[1], g[2]) != (e[1], e[2]):
                return False
            return g[0] != 'ok' or g[3] == e[3] or g[3].startswith(e[3] + '(')

        tried = 0
        for n in (0, 1, 2):
            for ext in it.product(alphabet, repeat=n):
                full = data + bytes(ext)
                if d.utf8:
                    try:
                        full.decode('utf8')
                    except UnicodeDecodeError:
                        continue
                exp = exp_items(full)
                rest, rp, _ = pipeline.native_run(binary, d.id, full, partial=False, start=resume)
                tried += 1
                got = committed + [x for x in (rest or []) if x[0] != 'none']
                if rp or len(got) != len(exp) or any(not same(g, e) for g, e in zip(got, exp)):
                    info['confirmation'] = (f'continuation {bytes(ext)!r}: items committed by the partial lexer {committed} + ordinary lexing '
                                            f'from the position reported at None ({resume}) = {got[:8]}, one-shot lexing gives {exp[:8]}')
                    return True
        info['confirmation'] = f'no continuation of <= 2 bytes (of {tried} tried) changes the item stream'
        if ' committed skip ' in f['what']:
            return 'benign'
        return False
    return None


def c07(tier, seed):
    tp = tier_params(tier)
    sel = sel_for(tier, 'look')
    return lex_family('C07', tier, seed, relevant={'C07', 'C01', 'C02', 'C03'}, select=lambda ds: [d for d in sel(ds)], name='lex',
                      partial=True, post=partial_post,
                      long_defs=(('long_ident', 20), ('long_float', 20), ('long_skip', 20), ('long_lit', 20), ('long_loop', 24)) if tier == 'quick' else (('long_ident', 28), ('long_float', 20), ('long_skip', 28), ('long_lit', 24), ('long_loop', 40)),
                      rule='one case = one leaf of next() on a partial lexer over a symbolic prefix (bytes and length symbolic); '
                           'non-trivial = anything but the immediate None on empty input', **tp)


REGISTRY['C07'] = c07

from .history import c14  # noqa: E402
REGISTRY['C14'] = c14
