"""Build the framework's tools and warm the dependency builds (offline)."""
import time

from . import build, pipeline, corpus_defs


def main():
    t = time.time()
    print('mirdump   ->', build.mirdump_bin())
    print('refdfa    ->', build.cargo_tool('refdfa'))
    print('verdict   ->', build.cargo_tool('verdict'))
    d = [x for x in corpus_defs.core() if x.id == 'nested_prefix']
    for prof in ('dev', 'release'):
        progs, times = pipeline.build_programs('warm', d, list(build.CONFIGS), prof)
        print('warm MIR builds', prof, times)
    print('setup done in %.0fs' % (time.time() - t))


if __name__ == '__main__':
    main()
