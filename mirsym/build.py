"""Build helpers: compile corpus crates against /repo with the real derive and export their MIR.

Everything is rebuilt from /repo's *current working tree*: cargo fingerprints the path dependency,
and the corpus crate itself is always recompiled (its lib.rs is rewritten/touched) so the MIR JSON is
regenerated on every run.
"""
import hashlib
import json
import os
import subprocess
import time

VERIF = os.path.dirname(os.path.dirname(os.path.abspath(__file__)))
REPO = os.environ.get('VERIF_REPO', '/repo')
WORK = os.environ.get('VERIF_WORK', os.path.join(VERIF, '.work'))
MIRDUMP_DIR = os.path.join(VERIF, 'tools', 'mirdump')
NIGHTLY = 'nightly'

ENV_BASE = dict(os.environ, CARGO_NET_OFFLINE='true', CARGO_TERM_COLOR='never')


class BuildError(Exception):
    pass


def run(cmd, cwd=None, env=None, timeout=1800):
    r = subprocess.run(cmd, cwd=cwd, env=env or ENV_BASE, stdout=subprocess.PIPE, stderr=subprocess.STDOUT,
                       text=True, timeout=timeout)
    return r.returncode, r.stdout


_sysroot = None


def nightly_sysroot():
    global _sysroot
    if _sysroot is None:
        rc, out = run(['rustc', '+' + NIGHTLY, '--print', 'sysroot'])
        if rc != 0:
            raise BuildError('no nightly toolchain: ' + out)
        _sysroot = out.strip().splitlines()[-1]
    return _sysroot


def cargo_tool(name, toolchain=None):
    """build /verif/tools/<name> (release) and return the binary path"""
    d = os.path.join(VERIF, 'tools', name)
    cmd = ['cargo'] + (['+' + toolchain] if toolchain else []) + ['build', '--release', '--offline']
    env = dict(ENV_BASE, CARGO_TARGET_DIR=os.path.join(WORK, 'tooltarget', name))
    rc, out = run(cmd, cwd=d, env=env)
    if rc != 0:
        raise BuildError(f'building tools/{name} failed:\n{out[-4000:]}')
    return os.path.join(WORK, 'tooltarget', name, 'release', name)


def mirdump_bin():
    return cargo_tool('mirdump', NIGHTLY)


def cfg_name(features, profile):
    f = '+'.join(sorted(features)) or 'default'
    return f'{f}@{profile}'


CONFIGS = {
    'tc-unsafe': [],
    'sm-safe': ['forbid_unsafe', 'state_machine_codegen'],
    'tc-safe': ['forbid_unsafe'],
    'sm-unsafe': ['state_machine_codegen'],
}


def write_if_changed(path, text):
    try:
        with open(path) as f:
            if f.read() == text:
                return False
    except FileNotFoundError:
        pass
    os.makedirs(os.path.dirname(path), exist_ok=True)
    with open(path, 'w') as f:
        f.write(text)
    return True


def export_mir(crate_name, lib_rs, features, profile='dev', extra_stop=()):
    """compile `lib_rs` as crate `corpus` against /repo (features of logos as given) and return the
    path of the exported MIR JSON.  Raises BuildError with the compiler output on failure."""
    from .builtins import STOP
    cfg = cfg_name(features, profile)
    cdir = os.path.join(WORK, 'crates', f'{crate_name}-{cfg}')
    os.makedirs(os.path.join(cdir, 'src'), exist_ok=True)
    feats = ', '.join(f'"{f}"' for f in features)
    # the package is named after the crate directory (the library stays `corpus`): crate directories share one target
    # directory per configuration, and cargo keys the fingerprint of a workspace-root path package by package name, so
    # with one name for all of them a concurrent check's build could make this one look fresh (no MIR written)
    write_if_changed(os.path.join(cdir, 'Cargo.toml'), f'''[package]
name = "corpus-{crate_name}"
version = "0.0.0"
edition = "2021"
[lib]
name = "corpus"
path = "src/lib.rs"
[dependencies]
logos = {{ path = "{REPO}", features = [{feats}] }}
[workspace]
[profile.release]
debug-assertions = false
overflow-checks = false
''')
    lock = os.path.join(REPO, 'Cargo.lock')
    if os.path.exists(lock) and not os.path.exists(os.path.join(cdir, 'Cargo.lock')):
        with open(lock) as f:
            write_if_changed(os.path.join(cdir, 'Cargo.lock'), f.read())
    with open(os.path.join(cdir, 'src', 'lib.rs'), 'w') as f:
        f.write(lib_rs)
    out = os.path.join(cdir, 'mir.json')
    if os.path.exists(out):
        os.remove(out)
    env = dict(ENV_BASE,
               MIRDUMP_OUT=out, MIRDUMP_CRATE='corpus', MIRDUMP_STOP='|'.join(list(STOP) + list(extra_stop)),
               RUSTFLAGS='-Zalways-encode-mir -Zinline-mir=no -Awarnings',
               RUSTC_WORKSPACE_WRAPPER=mirdump_bin(),
               LD_LIBRARY_PATH=os.path.join(nightly_sysroot(), 'lib') + ':' + os.environ.get('LD_LIBRARY_PATH', ''),
               CARGO_TARGET_DIR=os.path.join(WORK, 'target', cfg))
    cmd = ['cargo', '+' + NIGHTLY, 'check', '--offline', '--lib'] + (['--release'] if profile == 'release' else [])
    t = time.time()
    rc, log = run(cmd, cwd=cdir, env=env)
    if rc != 0 or not os.path.exists(out):
        raise BuildError(f'cargo check of corpus crate {crate_name} [{cfg}] failed (rc {rc}):\n{log[-6000:]}')
    return out, time.time() - t


def repo_fingerprint():
    h = hashlib.sha256()
    for root in ('src', 'logos-codegen/src', 'logos-derive/src', 'logos-cli/src'):
        for dp, dn, fn in sorted(os.walk(os.path.join(REPO, root))):
            dn.sort()
            for n in sorted(fn):
                p = os.path.join(dp, n)
                h.update(p.encode())
                with open(p, 'rb') as f:
                    h.update(f.read())
    for n in ('Cargo.toml', 'Cargo.lock', 'logos-codegen/Cargo.toml', 'logos-derive/Cargo.toml'):
        p = os.path.join(REPO, n)
        if os.path.exists(p):
            with open(p, 'rb') as f:
                h.update(f.read())
    return h.hexdigest()[:16]


def ensure_fresh():
    """cargo decides freshness of a path dependency by mtime: a /repo file restored with an *older* mtime (cp -a, rsync,
    tar) would leave stale artefacts of the previous tree in use.  The content hash of /repo's sources is therefore kept
    in WORK/repo.stamp; when it differs, the cargo fingerprints of everything built from /repo are removed in every
    target directory under WORK, which forces those crates (and their dependents) to be rebuilt from the current tree."""
    import glob
    import shutil
    fp = repo_fingerprint()
    stamp = os.path.join(WORK, 'repo.stamp')
    old = None
    if os.path.exists(stamp):
        with open(stamp) as f:
            old = f.read().strip()
    if old == fp:
        return False
    n = 0
    for dp, dn, _ in os.walk(WORK):
        if os.path.basename(dp) == '.fingerprint':
            for d in list(dn):
                if d.startswith(('logos-', 'logos_', 'corpus-', 'replay-', 'bumpreplay-', 'c18rep-', 'verdict-')):
                    shutil.rmtree(os.path.join(dp, d), ignore_errors=True)
                    n += 1
            dn[:] = []
        elif os.path.basename(dp) in ('deps', 'incremental', 'build', 'src', 'examples'):
            dn[:] = []
    os.makedirs(WORK, exist_ok=True)
    with open(stamp, 'w') as f:
        f.write(fp)
    return n
