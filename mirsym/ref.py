"""Reference semantics as z3 terms over the executor's symbolic bytes/len.

Per pattern an independently built, minimised single-pattern DFA (tools/refdfa; regex-syntax +
regex-automata, none of logos-codegen) is unrolled from a *concrete* start position t into one-hot
state predicates.  From them:

  M(p,t,j)      pattern p matches exactly bytes[t..j]        (j <= len; one-symbol look-ahead as in
                regex-automata, so `$`, `\\b` are exact)
  anyM(t,j)     some pattern does
  alive(t,j)    after reading bytes[t..j] some pattern can still reach a match
  dead_at(t,j)  j is the first position (EOI counting as a byte) at which what was read from t can no
                longer be extended to a match of any pattern

There is also a plain-Python evaluator of the same tables (`Concrete`) used to validate the z3
encoding on concrete inputs and as the expectation generator at replay.
"""
import json
import subprocess

import z3

from .exec import U, bvv, s_and, s_not, s_or, simp


def run_refdfa(binary, request, mode='tables'):
    r = subprocess.run([binary, mode], input=json.dumps(request), capture_output=True, text=True)
    if r.returncode != 0:
        raise RuntimeError('refdfa failed: ' + r.stderr[-2000:])
    return json.loads(r.stdout)['patterns']


class PatTable:
    def __init__(self, rec, prio, outcome, name):
        d = rec['dfa']
        self.name = name
        self.prio = prio
        self.outcome = outcome            # ('variant', idx) | ('skip',)
        self.cb_fn = None
        self.cb_kind = None
        self.n = d['nstates']
        self.start = d['start']
        self.classes = d['classes']
        self.ncls = d['ncls']
        self.trans = d['trans']
        self.eoi = d['eoi']
        self.is_match = d['is_match']
        self.facts = rec.get('facts', {})
        if any(d['is_quit']):
            raise RuntimeError('reference DFA has quit states: ' + name)
        # class -> list of byte ranges
        self.cls_ranges = []
        for c in range(self.ncls):
            rs = []
            b = 0
            while b < 256:
                if self.classes[b] == c:
                    e = b
                    while e + 1 < 256 and self.classes[e + 1] == c:
                        e += 1
                    rs.append((b, e))
                    b = e + 1
                else:
                    b += 1
            self.cls_ranges.append(rs)
        # live[q]: a match state is reachable from q (through byte or EOI transitions)
        live = list(self.is_match)
        changed = True
        while changed:
            changed = False
            for q in range(self.n):
                if live[q]:
                    continue
                if live[self.eoi[q]] or any(live[x] for x in self.trans[q]):
                    live[q] = True
                    changed = True
        self.live = live
        # r1[x]: a match state is reachable from x in >= 1 transitions (bytes or EOI).  Matches are signalled one symbol
        # late, so "r1[trans[q][c]]" means: a match ending at or after the byte c exists.
        r1 = [False] * self.n
        changed = True
        while changed:
            changed = False
            for x in range(self.n):
                if r1[x]:
                    continue
                nxt = list(self.trans[x]) + [self.eoi[x]]
                if any(self.is_match[y] or r1[y] for y in nxt):
                    r1[x] = True
                    changed = True
        # more[q]: the pattern can still match text that extends what was read by at least one further byte
        # (partial lexing: more input could change the outcome)
        self.more = [any(r1[x] for x in self.trans[q]) for q in range(self.n)]
        # uncertain[q]: what follows can still change this pattern's contribution: it can grow (more), or whether it
        # matches right here depends on the next symbol (look-ahead: `$`, `\b`)
        self.uncertain = [self.more[q] or any(self.is_match[x] != self.is_match[self.eoi[q]] for x in self.trans[q])
                          for q in range(self.n)]

    # ---- concrete evaluation
    def run(self, data, t, j):
        q = self.start
        for k in range(t, j):
            q = self.trans[q][self.classes[data[k]]]
        return q

    def matches(self, data, t, j):
        if j > len(data):
            return False
        q = self.run(data, t, j)
        nq = self.trans[q][self.classes[data[j]]] if j < len(data) else self.eoi[q]
        return self.is_match[nq]


class Reference:
    """z3 terms for a list of PatTable over ex.bytes / ex.len"""

    def __init__(self, ex, pats):
        self.ex = ex
        self.pats = pats
        self.N = ex.N
        self._cls = {}
        self._S = {}
        self._M = {}
        self._alive = {}
        self._anyM = {}

    def cls(self, pi, c, pos):
        key = (pi, c, pos)
        r = self._cls.get(key)
        if r is None:
            b = self.ex.bytes[pos]
            parts = []
            for lo, hi in self.pats[pi].cls_ranges[c]:
                if lo == hi:
                    parts.append(b == lo)
                elif lo == 0 and hi == 255:
                    parts.append(z3.BoolVal(True))
                elif lo == 0:
                    parts.append(z3.ULE(b, hi))
                elif hi == 255:
                    parts.append(z3.UGE(b, lo))
                else:
                    parts.append(z3.And(z3.UGE(b, lo), z3.ULE(b, hi)))
            r = simp(z3.Or(parts)) if parts else False
            self._cls[key] = r
        return r

    def S(self, pi, t, i):
        """list over states: in state q after reading bytes[t..t+i] (dead states dropped -> False)"""
        key = (pi, t, i)
        r = self._S.get(key)
        if r is not None:
            return r
        p = self.pats[pi]
        if i == 0:
            r = [q == p.start for q in range(p.n)]
        else:
            prev = self.S(pi, t, i - 1)
            pos = t + i - 1
            acc = [[] for _ in range(p.n)]
            if pos < self.N:
                for q in range(p.n):
                    sq = prev[q]
                    if sq is False:
                        continue
                    for c in range(p.ncls):
                        q2 = p.trans[q][c]
                        if not p.live[q2]:
                            continue
                        acc[q2].append(s_and(sq, self.cls(pi, c, pos)))
            r = [s_or(*a) if a else False for a in acc]
        self._S[key] = r
        return r

    def M(self, pi, t, j):
        key = (pi, t, j)
        r = self._M.get(key)
        if r is not None:
            return r
        p = self.pats[pi]
        if j > self.N or j < t:
            r = False
        else:
            st = self.S(pi, t, j - t)
            ln = self.ex.len
            parts = []
            for q in range(p.n):
                sq = st[q]
                if sq is False:
                    continue
                alts = []
                if j < self.N:
                    cs = [self.cls(pi, c, j) for c in range(p.ncls) if p.is_match[p.trans[q][c]]]
                    if cs:
                        alts.append(s_and(simp(z3.ULT(bvv(j, U), ln)), s_or(*cs)))
                if p.is_match[p.eoi[q]]:
                    alts.append(simp(ln == bvv(j, U)))
                if alts:
                    parts.append(s_and(sq, s_or(*alts)))
            r = s_and(simp(z3.ULE(bvv(j, U), ln)), s_or(*parts)) if parts else False
        self._M[key] = r
        return r

    def anyM(self, t, j):
        key = (t, j)
        r = self._anyM.get(key)
        if r is None:
            r = s_or(*[self.M(pi, t, j) for pi in range(len(self.pats))])
            self._anyM[key] = r
        return r

    def alive(self, t, j):
        """j <= len and after reading bytes[t..j] at least one pattern is not dead"""
        key = (t, j)
        r = self._alive.get(key)
        if r is None:
            if j > self.N:
                r = False
            else:
                parts = []
                for pi in range(len(self.pats)):
                    parts.extend(x for x in self.S(pi, t, j - t) if x is not False)
                r = s_and(simp(z3.ULE(bvv(j, U), self.ex.len)), s_or(*parts))
            self._alive[key] = r
        return r

    def dead_at(self, t, j):
        """d(t) == j : alive(t,j) and (j == len or not alive(t,j+1))"""
        if j > self.N:
            return False
        return s_and(self.alive(t, j), s_or(simp(self.ex.len == bvv(j, U)), s_not(self.alive(t, j + 1))))

    def can_extend(self, t, j):
        """j == len, and some pattern, after reading bytes[t..j], could still match if at least one
        more byte were appended (partial lexing: the outcome is not yet determined)"""
        parts = []
        for pi, p in enumerate(self.pats):
            st = self.S(pi, t, j - t) if j - t >= 0 and j <= self.N else []
            for q, sq in enumerate(st):
                if sq is not False and p.more[q]:
                    parts.append(sq)
        return s_and(simp(self.ex.len == bvv(j, U)), s_or(*parts))

    def undetermined(self, t, back=0):
        """the prefix (all of the input, or all but its last `back` bytes) does not determine the item starting at t:
        some pattern can still grow, or its match at the end depends on the next symbol"""
        alts = []
        for j in range(t, self.N + 1 - back):
            parts = []
            for pi, p in enumerate(self.pats):
                for q, sq in enumerate(self.S(pi, t, j - t)):
                    if sq is not False and p.uncertain[q]:
                        parts.append(sq)
            alts.append(s_and(simp(self.ex.len == bvv(j + back, U)), s_or(*parts)))
        return s_or(*alts)

    def winner_in(self, t, e, idxs):
        """some pattern of the index set is a highest-priority pattern among those matching bytes[t..e]"""
        alts = []
        for pi in idxs:
            p = self.pats[pi]
            higher = [self.M(qi, t, e) for qi, q in enumerate(self.pats) if q.prio > p.prio]
            alts.append(s_and(self.M(pi, t, e), s_not(s_or(*higher))))
        return s_or(*alts)

    def winner_ok(self, t, e, outcome):
        """the outcome (variant idx / skip) belongs to a highest-priority pattern among those matching
        exactly bytes[t..e]"""
        alts = []
        for pi, p in enumerate(self.pats):
            if p.outcome != outcome:
                continue
            higher = [self.M(qi, t, e) for qi, q in enumerate(self.pats) if q.prio > p.prio]
            alts.append(s_and(self.M(pi, t, e), s_not(s_or(*higher))))
        return s_or(*alts)

    def longest_ok(self, t, e):
        """e is the longest non-empty match end from t"""
        later = [self.anyM(t, j) for j in range(e + 1, self.N + 1)]
        return s_and(e > t, self.anyM(t, e), s_not(s_or(*later)))

    def no_match(self, t):
        return s_not(s_or(*[self.anyM(t, j) for j in range(t + 1, self.N + 1)]))

    def tie(self, t, e):
        """two different-outcome... two distinct patterns sharing the top priority match bytes[t..e]"""
        alts = []
        n = len(self.pats)
        for a in range(n):
            for b in range(a + 1, n):
                if self.pats[a].prio != self.pats[b].prio:
                    continue
                higher = [self.M(qi, t, e) for qi, q in enumerate(self.pats) if q.prio > self.pats[a].prio]
                alts.append(s_and(self.M(a, t, e), self.M(b, t, e), s_not(s_or(*higher))))
        return s_or(*alts)


class Concrete:
    """the same reference evaluated on concrete bytes (no z3): expectation generator for replay and
    cross-check of the symbolic encoding"""

    def __init__(self, pats, is_str):
        self.pats = pats
        self.is_str = is_str

    def step(self, data, t):
        """-> ('none',) | ('item', outcome, t, e) | ('err', t, e)"""
        n = len(data)
        if t >= n:
            return ('none',)
        best = None
        for j in range(t + 1, n + 1):
            if any(p.matches(data, t, j) for p in self.pats):
                best = j
        if best is not None:
            m = [p for p in self.pats if p.matches(data, t, best)]
            top = max(p.prio for p in m)
            win = [p for p in m if p.prio == top]
            return ('item', win[0].outcome, t, best, [p.name for p in win])
        # error: first position at which everything is dead
        d = None
        for j in range(t, n + 1):
            if j == n:
                d = n
                break
            alive = any(p.live[p.run(data, t, j + 1)] for p in self.pats)
            if not alive:
                d = j
                break
        e = max(d, t + 1)
        if self.is_str:
            while e < n and (data[e] & 0xC0) == 0x80:
                e += 1
        return ('err', t, e)

    def tokens(self, data):
        out = []
        t = 0
        while True:
            r = self.step(data, t)
            if r[0] == 'none':
                return out
            out.append(r)
            t = r[3] if r[0] == 'item' else r[2]
