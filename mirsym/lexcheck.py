"""Step obligations for derived lexers: one `next()` from a concrete start position on symbolic input.

explore_step() runs   Lexer::new(src) [new_partial] ; bump(p) ; next() ; span() ; slice() ; remainder()
on the exported MIR of one corpus definition in one configuration and, on every leaf of the execution
tree, discharges the obligations of the lexing properties against the Reference terms.  A failed
obligation is recorded with the solver's model (bytes, len); nothing is sampled.
"""
import re
import time

import z3

from . import ref as refmod
from .exec import (Agg, Cell, EngineError, Exec, Panic, Ref, SrcSlice, U, Violation, as_bv, bvv, s_and, s_not, s_or,
                   simp)

RX_READ = re.compile(r"LexerInternal<'_>>::read::<")
RX_TRIVIA = re.compile(r"LexerInternal<'_>>::trivia$")
RX_END = re.compile(r"LexerInternal<'_>>::end(_to_boundary)?$")


def lexer_fields(ex, lexref):
    """(token_start, token_end, is_prefix) of the Lexer behind a reference, by field *name*"""
    v = ex.read_lv(('cell', lexref.cell, lexref.path))
    key = (id(ex.p), v.ty)
    names = ex._lexer_field_idx.get(key)
    if names is None:
        kd = ex.p.kind(v.ty)
        names = {f['name']: i for i, f in enumerate(kd['variants'][0]['fields'])}
        ex._lexer_field_idx[key] = names
    return v.fields[names['token_start']], v.fields[names['token_end']], v.fields[names['is_prefix']]


def install_hooks(ex, callback_rx=None):
    ex._lexer_field_idx = {}

    def on_read(ex, f, args):
        m = re.search(r'read::<(.*)>$', f['name'])
        ty = m.group(1)
        size = 1 if ty == 'u8' else int(re.search(r'; (\d+)\]', ty).group(1))
        ex.events.append(('read', args[1], size))

    def on_trivia(ex, f, args):
        s, e, _ = lexer_fields(ex, args[0])
        ex.events.append(('trivia', s, e))

    def on_end(ex, f, args):
        ex.events.append(('end', args[1]))
        if f['name'].endswith('end_to_boundary'):
            # reads made while rounding an error span up to a char boundary are not match-attempt consumption
            ex.in_user_cb += 1

            def post(_r):
                ex.in_user_cb -= 1
            return post

    ex.trace_hooks.append((RX_READ, on_read))
    ex.trace_hooks.append((RX_TRIVIA, on_trivia))
    ex.trace_hooks.append((RX_END, on_end))
    if callback_rx is not None:
        def on_cb(ex, f, args):
            lexref = None
            for a in args:
                if isinstance(a, Ref):
                    lexref = a
            s = e = None
            if lexref is not None:
                try:
                    s, e, _ = lexer_fields(ex, lexref)
                except Exception:
                    pass
            name = f['name']
            rec = ['cb', name, s, e, None, None]
            ex.events.append(rec)
            ex.in_user_cb += 1

            def post(ret):
                ex.in_user_cb -= 1
                rec[4] = ret
                if lexref is not None:
                    try:
                        rec[5] = lexer_fields(ex, lexref)[1]
                    except Exception:
                        pass
            return post
        ex.trace_hooks.append((callback_rx, on_cb))


RX_CORPUS_CB = re.compile(r'^corpus::\w+::(?:\w+::)*cb_\w+$')


# ----------------------------------------------------------------------------- UTF-8
def valid_utf8(ex):
    """z3 constraint: bytes[0..len] is valid UTF-8 (standard DFA, one-hot states unrolled)"""
    N = ex.N
    # states: 0 ok, 1 need1, 2 need2, 3 need3, 4 afterE0, 5 afterED, 6 afterF0, 7 afterF4, (reject dropped)
    cur = [True] + [False] * 7
    ln = ex.len
    for i in range(N):
        b = ex.bytes[i]
        inp = simp(z3.ULT(bvv(i, U), ln))

        def rng(lo, hi):
            return simp(z3.And(z3.UGE(b, lo), z3.ULE(b, hi)))
        cont = rng(0x80, 0xBF)
        nxt = [[] for _ in range(8)]
        # from ok
        nxt[0].append(s_and(cur[0], simp(z3.ULE(b, 0x7F))))
        nxt[1].append(s_and(cur[0], rng(0xC2, 0xDF)))
        nxt[4].append(s_and(cur[0], simp(b == 0xE0)))
        nxt[2].append(s_and(cur[0], s_or(rng(0xE1, 0xEC), rng(0xEE, 0xEF))))
        nxt[5].append(s_and(cur[0], simp(b == 0xED)))
        nxt[6].append(s_and(cur[0], simp(b == 0xF0)))
        nxt[3].append(s_and(cur[0], rng(0xF1, 0xF3)))
        nxt[7].append(s_and(cur[0], simp(b == 0xF4)))
        nxt[0].append(s_and(cur[1], cont))
        nxt[1].append(s_and(cur[2], cont))
        nxt[2].append(s_and(cur[3], cont))
        nxt[1].append(s_and(cur[4], rng(0xA0, 0xBF)))
        nxt[1].append(s_and(cur[5], rng(0x80, 0x9F)))
        nxt[2].append(s_and(cur[6], rng(0x90, 0xBF)))
        nxt[2].append(s_and(cur[7], rng(0x80, 0x8F)))
        step = [s_or(*x) for x in nxt]
        cur = [simp(z3.If(inp, as_b(step[q]), as_b(cur[q]))) for q in range(8)]
    return cur[0]


def as_b(x):
    return z3.BoolVal(x) if isinstance(x, bool) else x


def is_boundary_term(ex, k):
    """k is a char boundary of the (valid UTF-8) source: k >= len or byte k is not a continuation"""
    if k >= ex.N:
        return True
    b = ex.bytes[k]
    return s_or(simp(z3.ULE(ex.len, bvv(k, U))), simp(z3.Or(z3.ULT(b, 0x80), z3.UGE(b, 0xC0))))


# ----------------------------------------------------------------------------- result decoding
def decode_item(ex, r):
    """Option<Result<Tok, E>> -> ('none',) | ('ok', variant_idx, fields) | ('err', value)"""
    if not isinstance(r, Agg) or r.variant is None:
        raise EngineError('unexpected lexer result ' + repr(r))
    if r.variant == 0:
        return ('none',)
    res = r.fields[0]
    if res.variant == 0:
        tok = res.fields[0]
        return ('ok', tok.variant, tok.fields)
    return ('err', res.fields[0])


_conc_ex = [None]


def conc(v):
    """span offsets are concrete along a path except when the code derives them from `len`: fork over the values"""
    if isinstance(v, int):
        return v
    ex = _conc_ex[0]
    if ex is None:
        raise EngineError(f'span offset is not concrete on this path: {v}')
    return ex.concretize(v, 'span offset', limit=ex.N + 2)


def canon_v(v):
    from .joint import canon
    return canon(v)


class CallbackSpec:
    """documented meaning of callback return values (book/src/callbacks.md) for the corpus' callbacks"""

    def __init__(self, ex, d, tables):
        self.ex, self.d, self.tables = ex, d, tables
        self.by_fn = {}
        for i, tb in enumerate(tables):
            if tb.cb_fn:
                self.by_fn.setdefault(tb.cb_fn, []).append(i)
        # the error callback may be written positionally (`cb_err`), named (`callback = cb_err`) or as an inline closure
        # (`|lex| cb_err(lex)`): in every form the corpus function that runs is the last `cb_...` identifier
        names = re.findall(r'cb_\w+', d.error_cb or '')
        self.error_cb = names[-1] if names else d.error_cb
        self.has_error_cb = bool(d.error_cb)

    @staticmethod
    def short(name):
        return name.split('::')[-1]

    def is_pattern_cb(self, name):
        return self.short(name) in self.by_fn

    def is_error_cb(self, name):
        return self.error_cb is not None and self.short(name) == self.error_cb

    def patterns_of(self, name):
        return self.by_fn[self.short(name)]

    def plain(self, outcome):
        return [i for i, tb in enumerate(self.tables) if tb.outcome == outcome and not tb.cb_fn]

    def with_cb(self):
        return [i for i, tb in enumerate(self.tables) if tb.cb_fn]

    def plain_fields(self, vi, ss, ee):
        v = self.d.variants[vi]
        if v.field is None:
            return []
        if v.field.replace(' ', '') in ("&'sstr", "&'s[u8]"):
            return [('src', str(ss), str(ee - ss))]
        return None

    def show(self, v):
        return repr(canon_v(v))[:80]

    def default_error(self, errcbs):
        """canonical form of the error a default error must carry"""
        if self.has_error_cb:
            if len(errcbs) >= 1 and errcbs[-1][4] is not None:
                return canon_v(errcbs[-1][4])
            return None
        if self.d.error is None:
            return ('agg', None, ())
        if self.d.error == 'MyErr':
            return ('agg', 0, ())
        return None

    def into_error(self, e):
        """MyErr::from(e) for the corpus' error type"""
        c = canon_v(e)
        if self.d.error == 'MyErr':
            if c == ('agg', None, ()):
                return ('agg', 2, ())
            return ('agg', 1, (c,))
        return None

    def expected(self, cb, idxs, errcbs):
        """documented outcome for the recorded return value: ('ok', variant, fields) | ('err', value) | ('skip',)"""
        tb = self.tables[idxs[0]]
        kind = tb.cb_kind
        ret = cb[4]
        vi = tb.outcome[1] if tb.outcome[0] == 'variant' else None
        deferr = ('err', self.default_error(errcbs))
        c = canon_v(ret)

        def variant_of(x):       # Option/Result/Filter... payloads
            return x[1], x[2]
        if kind == 'unit':
            return ('ok', vi, ())
        if kind == 'bool':
            if not isinstance(ret, bool):
                return None
            return ('ok', vi, ()) if ret else deferr
        if kind == 'value':
            return ('ok', vi, (c,))
        if kind in ('option',):
            v, f = variant_of(c)
            return ('ok', vi, f) if v == 1 else deferr
        if kind == 'option_unit':
            v, f = variant_of(c)
            return ('ok', vi, ()) if v == 1 else deferr
        if kind in ('result', 'result_unit', 'result_skip', 'skip_result', 'result_token'):
            v, f = variant_of(c)
            if v == 1:
                return ('err', self.into_error(ret.fields[0]))
            if kind == 'result':
                return ('ok', vi, f)
            if kind == 'result_unit':
                return ('ok', vi, ())
            if kind == 'result_token':
                return ('ok', f[0][1], f[0][2])
            return ('skip',)
        if kind in ('skip', 'skip_unit'):
            return ('skip',)
        if kind == 'filter':
            v, f = variant_of(c)
            return ('ok', vi, f) if v == 0 else ('skip',)
        if kind == 'filter_token':
            v, f = variant_of(c)
            return ('ok', f[0][1], f[0][2]) if v == 0 else ('skip',)
        if kind == 'filter_result':
            v, f = variant_of(c)
            if v == 0:
                return ('ok', vi, f)
            if v == 1:
                return ('skip',)
            return ('err', self.into_error(ret.fields[0]))
        if kind == 'token':
            return ('ok', c[1], c[2])
        return None

    def yields_default_error(self, cb, idxs):
        """does the recorded return value stand for the *default* error (false, None) rather than a value or Err(e)?"""
        kind = self.tables[idxs[0]].cb_kind
        ret = cb[4]
        if kind == 'bool':
            return ret is False
        if kind in ('option', 'option_unit'):
            return canon_v(ret)[1] != 1
        return False

    def actual(self, kind, item, ss, ee):
        if kind == 'skip':
            return ('skip',)
        if item is None:
            return (kind,)
        if item[0] == 'ok':
            return ('ok', item[1], tuple(canon_v(x) for x in item[2]))
        if item[0] == 'err':
            return ('err', canon_v(item[1]))
        return (item[0],)


class StepResult:
    def __init__(self):
        self.leaves = 0
        self.kinds = {}
        self.failures = []      # dict(prop, what, model, detail)
        self.samples = []
        self.max_depth_by_leaf = []
        self.reads_max = 0
        self.stats = None
        self.fn_seen = set()
        self.builtins = set()
        self.ignored_start_panics = 0

    def fail(self, ex, prop, what, cond_violated=None, detail=None, model=None):
        props = (prop,) if isinstance(prop, str) else tuple(prop)
        # at most 12 recorded failures per attribution (a check that looks for C03 must not find its failures crowded
        # out by twenty C01-only ones), 60 in total
        key = 'nfail:' + ','.join(props)
        if ex.acc.get(key, 0) >= 12 or ex.acc.n('failures') >= 60:
            return
        ex.acc.inc(key)
        if model is None:
            model = ex.model_for(cond_violated if cond_violated is not None else True)
        ex.acc.add('failures', dict(prop=props[0], props=props, what=what, model=model, detail=detail))

    def collect(self, ex):
        a = ex.acc
        self.leaves = a.get('leaves', 0)
        self.kinds = a.get('kinds', {})
        self.failures = a.get('failures', [])
        self.samples = a.get('samples', [])[:12]
        self.max_depth_by_leaf = [a.get('max_leaf_depth', 0)]
        self.reads_max = a.get('max_reads', 0)
        self.ignored_start_panics = a.get('ignored_start_panics', 0)


def explore_step(prog, d, tables, N, start, *, partial=False, props=None, is_release=False, budget=None,
                 check_second_none=True, max_failures=20, stream=False):
    """explore one next() from position `start`; returns StepResult"""
    ex = Exec(prog, N, debug_assertions=not is_release, time_budget=budget)
    if d.utf8:
        ex.base.append(as_b(valid_utf8(ex)))
    install_hooks(ex, RX_CORPUS_CB)
    R = refmod.Reference(ex, tables)
    cbspec = CallbackSpec(ex, d, tables)
    res = StepResult()
    mod = f'corpus::{d.id}::'
    is_str = d.utf8
    safe_build = any('from_slice' in (f['name'] if f else '') for f in prog.fns.values())

    def prove(prop, what, claim, detail=None):    # prop: id or tuple of ids the failed obligation belongs to
        """PC => claim ?  (claim: bool or z3)"""
        # the solver is asked regardless of how many failures have been recorded: the sequence of queries along a path
        # prefix must not depend on what other paths found (the replay cache is positional); only the recording is capped
        neg = s_not(claim)
        if ex.check(neg):
            res.fail(ex, prop, what, neg, detail)

    def body(ex):
        _conc_ex[0] = ex
        src = ex.source()
        lex = Cell(ex.call_root(mod + ('h_new_partial' if partial else 'h_new'), [src]))
        lref = Ref(lex, ())
        if start > 0:
            try:
                ex.call_root(mod + 'h_bump', [lref, start])
            except Panic:
                return ('start-not-valid',)
        def one_call(t0):
            ex.events = []
            out = ex.call_root(mod + 'h_next', [lref])
            events = ex.events
            ex.events = []
            item = decode_item(ex, out)
            sp = ex.call_root(mod + 'h_span', [lref])
            s, e = conc(sp.fields[0]), conc(sp.fields[1])
            # ---- split into attempts
            attempts = []        # (t, [events])
            cur_t, cur = t0, []
            skips = []
            for ev in events:
                if ev[0] == 'trivia':
                    ss, ee = conc(ev[1]), conc(ev[2])
                    skips.append((ss, ee))
                    attempts.append((cur_t, cur, ('skip', ss, ee)))
                    cur_t, cur = ee, []
                else:
                    cur.append(ev)
            attempts.append((cur_t, cur, (item[0], s, e)))
            # ---- tiling inside this call (C03): each attempt starts where the previous one ended
            pos = t0
            for (t, evs, (kind, ss, ee)) in attempts:
                if kind == 'none':
                    continue
                if ss != pos:
                    res.fail(ex, 'C03', f'{kind} span starts at {ss} but the previous item ended at {pos}')
                if not (ee > ss):
                    res.fail(ex, 'C03', f'{kind} span {ss}..{ee} is empty')
                prove(('C03', 'C05'), f'{kind} span {ss}..{ee} ends beyond the source', simp(z3.ULE(bvv(ee, U), ex.len)))
                pos = ee
            # ---- per-attempt reference obligations
            for ai, (t, evs, (kind, ss, ee)) in enumerate(attempts):
                cbs = [ev for ev in evs if ev[0] == 'cb' and cbspec.is_pattern_cb(ev[1])]
                errcbs = [ev for ev in evs if ev[0] == 'cb' and cbspec.is_error_cb(ev[1])]
                m = ee                      # end of the automaton's match (callbacks may bump beyond it)
                if cbs:
                    if len(cbs) > 1:
                        res.fail(ex, 'C13', f'{len(cbs)} pattern callbacks ran in one match attempt from {t}')
                    cb = cbs[0]
                    m = conc(cb[3])
                    if conc(cb[2]) != t:
                        res.fail(ex, 'C13', f'callback {cbspec.short(cb[1])} saw span start {cb[2]}, the match starts at {t}')
                    idxs = cbspec.patterns_of(cb[1])
                    prove('C01', f'{kind} {ss}..{ee}: callback match {t}..{m} is not the longest match', R.longest_ok(t, m))
                    prove('C13', f'callback {cbspec.short(cb[1])} ran for {t}..{m} but its pattern is not the highest-priority '
                                 f'longest match', s_and(R.longest_ok(t, m), R.winner_in(t, m, idxs)))
                    exp = cbspec.expected(cb, idxs, errcbs)
                    got = cbspec.actual(kind, item if ai == len(attempts) - 1 else None, ss, ee)
                    if exp is not None and exp != got:
                        # which error value a rejecting callback yields is also C02's last sentence
                        tags = ('C13', 'C02') if (exp[0] == 'err' or got[0] == 'err') else 'C13'
                        res.fail(ex, tags, f'callback {cbspec.short(cb[1])} returned {cbspec.show(cb[4])} but the lexer produced '
                                           f'{got}, documented: {exp}')
                    if exp is not None and exp[0] == 'err' and exp == ('err', cbspec.default_error(errcbs)) and cbspec.has_error_cb \
                            and cb[4] is not None and cbspec.yields_default_error(cb, idxs) and len(errcbs) != 1:
                        res.fail(ex, ('C02', 'C13'), f'callback {cbspec.short(cb[1])} asked for the default error but the error '
                                                     f'callback ran {len(errcbs)} times')
                    if kind != 'none' and conc(cb[5]) != ee:
                        res.fail(ex, 'C13', f'item after callback ends at {ee} but the callback left the lexer at {cb[5]}')
                elif kind == 'skip':
                    # no pattern callback ran in this attempt: the winning pattern must not be one that carries a callback
                    # ("a callback attached to a pattern runs once for each match of that pattern that wins selection")
                    if cbspec.with_cb():
                        prove('C13', f'skip {ss}..{ee}: no callback ran although the winning pattern carries one',
                              s_not(s_and(R.longest_ok(t, ee), R.winner_in(t, ee, cbspec.with_cb()))))
                    # a skipped region that no skip pattern matches is also a hole in C03's tiling ("the gaps between
                    # items are exactly the skipped regions")
                    prove(('C01', 'C03'), f'skip {ss}..{ee} is not the longest match from {t}', R.longest_ok(t, ee))
                    prove(('C01', 'C03'), f'skip {ss}..{ee}: a skip pattern is not the highest-priority match',
                          R.winner_in(t, ee, cbspec.plain(('skip',))))
                elif kind == 'ok':
                    # "when no pattern matches any non-empty prefix at p, the lexer yields exactly one Err" (C02): an item
                    # produced where nothing matches contradicts C02 as well as C01
                    prove(('C02', 'C01'), f'token {ss}..{ee} although no pattern matches any non-empty prefix from {t}',
                          s_not(R.no_match(t)))
                    prove('C01', f'token {ss}..{ee} is not the longest match from {t}', R.longest_ok(t, ee))
                    if cbspec.with_cb():
                        prove('C13', f'token {ss}..{ee}: no callback ran although the winning pattern carries one',
                              s_not(s_and(R.longest_ok(t, ee), R.winner_in(t, ee, cbspec.with_cb()))))
                    vi = item[1]
                    prove('C01', f'token {ss}..{ee}: variant #{vi} is not the highest-priority match',
                          R.winner_in(t, ee, cbspec.plain(('variant', vi))))
                    exp_fields = cbspec.plain_fields(vi, ss, ee)
                    if exp_fields is not None and [canon_v(x) for x in item[2]] != exp_fields:
                        res.fail(ex, 'C13', f'value variant #{vi} without callback should hold the matched slice {ss}..{ee}, '
                                            f'got {item[2]}')
                elif kind == 'err':
                    if True:
                        # an Err where a pattern matches is a missing token (C01) as much as a wrong error (C02)
                        prove(('C02', 'C01'), f'Err at {ss}..{ee} although some pattern matches a non-empty prefix',
                              R.no_match(t))
                        # end = boundary_up(max(dead_at, t+1))
                        alts = []
                        for r in range(t + 1, ee + 1):
                            if r == t + 1:
                                dcond = s_or(R.dead_at(t, t), R.dead_at(t, t + 1))
                            else:
                                dcond = R.dead_at(t, r)
                            if is_str:
                                bnd = s_and(is_boundary_term(ex, ee), *[s_not(is_boundary_term(ex, k)) for k in range(r, ee)])
                            else:
                                bnd = (r == ee)
                            alts.append(s_and(dcond, bnd))
                        prove('C02', f'Err span {ss}..{ee} does not follow the span rule', s_or(*alts))
                        experr = cbspec.default_error(errcbs)
                        if experr is not None and canon_v(item[1]) != experr:
                            res.fail(ex, 'C02', f'error value {item[1]} is not the documented default {experr}')
                        if cbspec.has_error_cb and len(errcbs) != 1:
                            res.fail(ex, 'C13', f'error callback ran {len(errcbs)} times for one default error')
                elif kind == 'none':
                    if not partial:
                        prove('C03', f'None returned at {t} before the end of input', simp(ex.len == bvv(t, U)))
                        if not (s == t and e == t):
                            res.fail(ex, 'C03', f'span after None is {s}..{e}, expected {t}..{t}')
                # ---- consumption discipline (C02 second sentence, C20)
                loads = [conc(ev[1]) for ev in evs if ev[0] == 'load']
                reads = [ev for ev in evs if ev[0] == 'read']
                roffs = [conc(ev[1]) for ev in reads]
                if any(o is None for o in loads + roffs):
                    res.fail(ex, 'C20', 'symbolic read offset')
                else:
                    if any(o < t for o in loads + roffs):
                        res.fail(ex, 'C20', f'read below the attempt start {t}: {sorted(set(loads + roffs))[:4]}')
                    if any(b < a for a, b in zip(roffs, roffs[1:])):
                        res.fail(ex, 'C20', f'read offsets decrease within the attempt from {t}: {roffs}')
                    if any(b < a for a, b in zip(loads, loads[1:])):
                        res.fail(ex, 'C20', f'byte loads go backwards within the attempt from {t}: {loads}')
                    examined = (max(loads) - t + 1) if loads else 0
                    if len(reads) > 3 * (examined + 1) + 3:
                        res.fail(ex, 'C20', f'{len(reads)} read operations for {examined} examined bytes')
                    ex.acc.maxi('max_reads', len(reads))
                    if kind != 'none' and not (partial and kind == 'none'):
                        x = max(loads) if loads else t - 1
                        # every byte from t up to x was examined, and x is the fatal byte or the one before it
                        if loads and sorted(set(loads)) != list(range(t, x + 1)):
                            res.fail(ex, 'C20', f'bytes examined from {t} are not a contiguous prefix: {sorted(set(loads))}')
                        if 'no_consumption_rule' not in d.tags:
                            # x in {d-1, d} clipped to len-1, where d = dead_at(t)
                            alts = []
                            for dd in (x, x + 1):
                                if dd >= t:
                                    alts.append(R.dead_at(t, dd))
                            # clipped: d == len and x == len-1  is covered by dd == x+1 == len
                            prove('C02', f'attempt from {t} examined bytes up to {x}: not where matching becomes impossible',
                                  s_or(*alts), detail={'loads': loads})
            # ---- partial mode (C07, step part): None means "cannot decide yet"
            if partial and item[0] == 'none':
                t = attempts[-1][0]
                if not (s == t and e == t):
                    res.fail(ex, 'C07', f'partial lexer: span after None is {s}..{e}, expected empty at {t}')
                lookaround = any(not tb.facts.get('look_set_empty', True) for tb in tables)
                und = R.undetermined(t)
                if lookaround:
                    und = s_or(und, R.undetermined(t, back=1))      # the documented one-byte slack
                prove('C07', f'partial lexer returned None at {t} although the next item is already determined',
                      s_or(simp(ex.len == bvv(t, U)), und))
            if partial:
                for (t, evs, (kind, ss, ee)) in attempts:
                    if kind != 'none':
                        prove('C07', f'partial lexer committed {kind} {ss}..{ee} although more input could change it',
                              s_not(R.undetermined(t)))
            # ---- accessors (C04 / C05 / C14 basics)
            try:
                sl = ex.call_root(mod + 'h_slice', [lref])
                rem = ex.call_root(mod + 'h_remainder', [lref])
                def differs(a, b):
                    if isinstance(a, int) and isinstance(b, int):
                        return a != b
                    return ex.check(simp(as_bv(a, U) != as_bv(b, U)))
                if isinstance(sl, SrcSlice):
                    if differs(sl.off, s) or differs(sl.len, e - s):
                        res.fail(ex, 'C14', f'slice() is {sl} but span() is {s}..{e}')
                if isinstance(rem, SrcSlice):
                    if differs(rem.off, e):
                        res.fail(ex, 'C14', f'remainder() starts at {rem.off}, span end is {e}')
                    prove('C14', 'remainder() does not extend to the end of the source',
                          simp(as_bv(rem.len, U) + bvv(e, U) == ex.len))
            except Panic as pn:
                res.fail(ex, ('C04', 'C05') if is_str else ('C05',),
                         f'slice()/remainder() panicked after {item[0]} {s}..{e}: {pn.msg[:80]}')
            if is_str:
                prove('C04', f'span start {s} is not a char boundary', is_boundary_term(ex, s))
                prove('C04', f'span end {e} is not a char boundary', is_boundary_term(ex, e))
            # ---- None is sticky (C03)
            if item[0] == 'none' and not partial and check_second_none:
                out2 = ex.call_root(mod + 'h_next', [lref])
                it2 = decode_item(ex, out2)
                sp2 = ex.call_root(mod + 'h_span', [lref])
                if it2[0] != 'none' or conc(sp2.fields[0]) != s or conc(sp2.fields[1]) != e:
                    res.fail(ex, 'C03', f'second next() after None gave {it2[0]} span {sp2.fields}')
            return (item[0], item[1] if item[0] == 'ok' else None, s, e, skips, ex.path_max_depth)

        first = one_call(start)
        if stream and first[0] != 'none':
            # whole-stream cross-check of the induction over positions: keep calling next() until None
            calls = 1
            cur = first
            while cur[0] != 'none':
                calls += 1
                if calls > ex.N + 3:
                    res.fail(ex, 'C03', f'stream did not end after {calls} items on at most {ex.N} bytes')
                    break
                cur = one_call(cur[3])
            ex.acc.maxi('max_stream_items', calls)
        return first

    def on_leaf(ex, leaf):
        a = ex.acc
        if leaf[0] == 'ok' and leaf[1] == ('start-not-valid',):
            a.inc('ignored_start_panics')
            return
        a.inc('leaves')
        if leaf[0] == 'ok':
            k = leaf[1][0] if not leaf[1][4] else 'skip+' + leaf[1][0]
            a.count('kinds', k)
            a.maxi('max_leaf_depth', leaf[1][5])
            nl = a.get('leaves', 0)
            if ex.sample_this_leaf() and a.n('samples') < 12 and (nl & (nl - 1)) == 0:      # leaves 1, 2, 4, 8, ...: spread over the tree
                m = ex.model_for(True)
                a.add('samples', {'kind': k, 'input': bytes(m['bytes']).hex(), 'len': m['len'], 'start': start,
                                  'result': [leaf[1][0], leaf[1][1], leaf[1][2], leaf[1][3]], 'skips': leaf[1][4]})
        elif leaf[0] == 'panic':
            a.count('kinds', 'panic')
            prop = ('C05', 'C03') if safe_build else ('C03',)
            if 'cb' in d.tags:
                prop = prop + ('C13',)
            res.fail(ex, prop, 'lexer panicked: ' + leaf[1][:120])
        else:
            kind, msg, model = leaf[1]
            a.count('kinds', 'ub:' + kind)
            prop = {'oob': 'C05', 'get_unchecked': ('C04', 'C05') if is_str else 'C05', 'steps': ('C03', 'C20', 'C13') if 'cb' in d.tags else ('C03', 'C20'),
                    'unreachable': 'C05', 'assume': 'C05'}.get(kind, 'C05')
            if kind == 'steps':
                msg = f'next() does not return within its step budget ({ex.call_step_limit} MIR blocks for <= {ex.N} bytes): ' + msg
            res.fail(ex, prop, msg, model=model)

    ex.explore(body, on_leaf)
    res.collect(ex)
    res.stats = dict(ex.stats)
    res.fn_seen = set(ex.fn_seen)
    res.builtins = set(ex.builtins_used)
    return res


def partial_undetermined(ex, R, t):
    """some pattern, after reading everything available from t, can still be extended by more input"""
    N = ex.N
    alts = []
    for j in range(t, N + 1):
        alts.append(R.can_extend(t, j))
    return s_or(*alts)


def conc_or_none(v):
    return v if isinstance(v, int) else None

