"""./check-replay <replay.json>: run the recorded input through the natively built real lexer."""
import json
import sys

from . import corpus_defs, pipeline, ref


def main():
    rec = json.load(open(sys.argv[1]))
    print(json.dumps({k: rec.get(k) for k in ('property', 'def', 'cfg', 'profile', 'start', 'input_hex', 'what')}, indent=1))
    if 'def' not in rec:
        print('(not a lexing replay; see the record for the reproduction command)')
        print(rec.get('repro', ''))
        return 0
    defs = {d.id: d for d in corpus_defs.all_defs_extended()}
    d = defs[rec['def']]
    binary = pipeline.build_native('replay', [d], rec['cfg'], rec.get('profile', 'dev'))
    items, panicked, raw = pipeline.native_run(binary, d.id, bytes.fromhex(rec['input_hex']), partial=rec.get('partial', False),
                                               start=rec.get('start', 0))
    print('native  :', items, 'PANIC: ' + panicked if panicked else '')
    tables, _, _ = pipeline.reference_tables(d)
    if tables:
        conc = ref.Concrete(tables, d.utf8)
        data = bytes.fromhex(rec['input_hex'])
        exp, t = [], rec.get('start', 0)
        while True:
            st = conc.step(data, t)
            if st[0] == 'none':
                break
            exp.append(st)
            t = st[3] if st[0] == 'item' else st[2]
        print('expected:', exp)
    return 0


if __name__ == '__main__':
    sys.exit(main())
