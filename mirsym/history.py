"""C14: accessor / clone / morph / spanned agreement over API call histories.

Histories (op sequences up to K) are enumerated exhaustively; for each history the input (bytes, len) is
symbolic and the relational assertions are decided by the solver on every leaf of the execution tree of the real
runtime MIR (Lexer::{next,bump,clone,morph,spanned,span,slice,remainder}, SpannedIter::next)."""
import itertools
import random
import time

import z3

from . import corpus, lexcheck, pipeline, report
from .corpus import Def, R, T, Var
from .exec import Agg, Cell, EngineError, Exec, Panic, Ref, SrcSlice, U, Violation, as_bv, bvv, s_and, s_not, simp
from .joint import canon

OPS = ['next', 'bump1', 'clone_ahead', 'morph_roundtrip', 'morph_next_back', 'spanned_step', 'bump_rest', 'clone_from_other', 'spanned_resume']
OPS_STR = [0, 1, 2, 3, 4, 5, 7, 8]
OPS_BYTES = [0, 1, 6, 2, 7]

HIST_EXTRA = '''
pub mod hist {
    use logos::{Lexer, Logos, SpannedIter};
    pub type A = super::hist_a::Tok;
    pub type B = super::hist_b::Tok;
    pub fn morph_ab(l: Lexer<'static, A>) -> Lexer<'static, B> { l.morph() }
    pub fn morph_ba(l: Lexer<'static, B>) -> Lexer<'static, A> { l.morph() }
    pub fn spanned_a(l: Lexer<'static, A>) -> SpannedIter<'static, A> { l.spanned() }
    pub fn spanned_next_a(s: &mut SpannedIter<'static, A>) -> Option<(Result<A, ()>, core::ops::Range<usize>)> { s.next() }
    pub fn set_extras_a(l: &mut Lexer<'static, A>, v: usize) { l.extras = v; }
    pub fn extras_a(l: &Lexer<'static, A>) -> usize { l.extras }
    pub fn extras_b(l: &Lexer<'static, B>) -> usize { l.extras }
    pub fn clone_from_a(dst: &mut Lexer<'static, A>, src: &Lexer<'static, A>) { dst.clone_from(src) }
    pub fn spanned_clone_from_a(dst: &mut SpannedIter<'static, A>, src: &SpannedIter<'static, A>) { dst.clone_from(src) }
    pub fn spanned_bump_a(s: &mut SpannedIter<'static, A>, n: usize) { s.bump(n) }
    pub fn spanned_into_a(s: SpannedIter<'static, A>) -> Lexer<'static, A> { let l: &Lexer<'static, A> = &s; l.clone() }
    pub type C = super::hist_c::Tok;
    pub fn clone_from_c(dst: &mut Lexer<'static, C>, src: &Lexer<'static, C>) { dst.clone_from(src) }
    pub fn set_extras_c(l: &mut Lexer<'static, C>, v: usize) { l.extras = v; }
    pub fn extras_c(l: &Lexer<'static, C>) -> usize { l.extras }
}
'''


def hist_defs():
    a = Def('hist_a', skips=[R(' +')], extras='usize', variants=[Var('Word', [R('[a-z]+')]), Var('Num', [R('[0-9]+')]),
                                                                  Var('E', [T('é')]),
                                                                  # an error that dies inside a later multi-byte character
                                                                  Var('H', [R('#[à-ÿ]+:')])])
    b = Def('hist_b', extras='usize', variants=[Var('Any', [R('[a-z0-9 ]')]), Var('Ab', [T('ab')])])
    c = Def('hist_c', utf8=False, skips=[R(b' +')], extras='usize', variants=[Var('Word', [R(b'[a-z]+')]), Var('Hi', [R(b'[\x80-\xFF]')])])
    return [a, b, c]


def lexer_state(ex, cell):
    v = cell.val
    kd = ex.p.kind(v.ty)
    names = {f['name']: i for i, f in enumerate(kd['variants'][0]['fields'])}
    return {n: v.fields[i] for n, i in names.items()}


def task_history(pl):
    prog = pipeline.load_program(pl['mir'])
    ops = pl['ops']
    N = pl['N']
    partial = pl['partial']
    ex = Exec(prog, N, time_budget=pl.get('budget'))
    is_bytes = pl.get('bytes', False)
    if not is_bytes:
        ex.base.append(lexcheck.as_b(lexcheck.valid_utf8(ex)))
    lexcheck.install_hooks(ex)
    out = dict(leaves=0, failures=[], ops=ops, kinds={})
    A, B, H = ('corpus::hist_c::' if pl.get('bytes') else 'corpus::hist_a::'), 'corpus::hist_b::', 'corpus::hist::'
    SFX = 'c' if pl.get('bytes') else 'a'

    def fail(what, cond=None):
        if len(out['failures']) < 6:
            out['failures'].append({'what': what, 'model': ex.model_for(cond if cond is not None else True), 'ops': ops})

    def span_of(cell, mod=A):
        sp = ex.call_root(mod + 'h_span', [Ref(cell, ())])
        return sp.fields[0], sp.fields[1]

    def check_accessors(cell, after):
        s, e = span_of(cell)
        try:
            sl = ex.call_root(A + 'h_slice', [Ref(cell, ())])
            rem = ex.call_root(A + 'h_remainder', [Ref(cell, ())])
        except Panic as p:
            fail(f'slice()/remainder() panicked after {after}: {p.msg[:60]}')
            return
        if not (isinstance(sl, SrcSlice) and str(sl.off) == str(s)):
            fail(f'after {after}: slice() starts at {getattr(sl, "off", sl)}, span() at {s}')
        else:
            bad = simp(as_bv(sl.len, U) != as_bv(e, U) - as_bv(s, U))
            if ex.check(bad):
                fail(f'after {after}: slice() length differs from span()', bad)
        if not (isinstance(rem, SrcSlice) and str(rem.off) == str(e)):
            fail(f'after {after}: remainder() starts at {getattr(rem, "off", rem)}, span end is {e}')
        else:
            bad = simp(as_bv(rem.off, U) + as_bv(rem.len, U) != ex.len)
            if ex.check(bad):
                fail(f'after {after}: remainder() does not extend to the end of the source', bad)

    def body(ex):
        lex = Cell(ex.call_root(A + ('h_new_partial' if partial else 'h_new'), [ex.source()]))
        ex.call_root(H + 'set_extras_' + SFX, [Ref(lex, ()), 41])
        trace = []
        for i, op in enumerate(ops):
            name = OPS[op]
            lref = Ref(lex, ())
            if name == 'next':
                r = ex.call_root(A + 'h_next', [lref])
                trace.append(canon(r))
            elif name == 'bump1':
                st = lexer_state(ex, lex)
                e = st['token_end']
                # only in-range bumps are part of the property's histories
                ok = (True if is_bytes else lexcheck.is_boundary_term(ex, e + 1)) if isinstance(e, int) else None
                if ok is None:
                    raise EngineError('symbolic token_end in history')
                inr = simp(z3.ULE(bvv(e + 1, U), ex.len))
                i_ = ex.decide([s_and(inr, ok), s_not(s_and(inr, ok))])
                if i_ == 0:
                    ex.call_root(A + 'h_bump', [lref, 1])
                    st2 = lexer_state(ex, lex)
                    if st2['token_end'] != e + 1 or st2['token_start'] != st['token_start']:
                        fail(f'bump(1) moved the span from {st["token_start"]}..{e} to {st2["token_start"]}..{st2["token_end"]}')
                trace.append('bump')
            elif name == 'bump_rest':
                st = lexer_state(ex, lex)
                rem = ex.call_root(A + 'h_remainder', [lref])
                n = ex.concretize(rem.len, 'remainder length', limit=ex.N + 2)
                ex.call_root(A + 'h_bump', [lref, n])      # in range by construction: must not panic
                st2 = lexer_state(ex, lex)
                if st2['token_end'] != st['token_end'] + n or st2['token_start'] != st['token_start']:
                    fail(f'bump(remainder().len()) moved the span to {st2["token_start"]}..{st2["token_end"]}')
                if ex.check(simp(as_bv(st2['token_end'], U) != ex.len)):
                    fail('after bump(remainder().len()) the span does not end at the end of the source')
                trace.append('bump_rest')
            elif name == 'clone_ahead':
                before = canon(lex.val)
                c = Cell(ex.call_root(A + 'h_clone', [lref]))
                if canon(c.val) != before:
                    fail(f'a fresh clone differs from the original: {canon(c.val)} vs {before}')
                cs, ce = span_of(c, A)
                os_, oe = span_of(lex, A)
                if (str(cs), str(ce)) != (str(os_), str(oe)):
                    fail(f'clone reports span {cs}..{ce}, the original {os_}..{oe}')
                rc_ = ex.call_root(A + 'h_next', [Ref(c, ())])
                if canon(lex.val) != before:
                    fail('advancing a clone changed the original lexer')
                ro = ex.call_root(A + 'h_next', [lref])
                if canon(ro) != canon(rc_) or canon(lex.val) != canon(c.val):
                    fail(f'clone and original diverge: clone {canon(rc_)} {canon(c.val)} vs original {canon(ro)} {canon(lex.val)}')
                trace.append(canon(ro))
            elif name == 'clone_from_other':
                # Clone::clone_from into a lexer that was created over a *different* source (the empty prefix of the input):
                # the receiver must become a copy of the argument, source included, and continue like it
                before = canon(lex.val)
                other = Cell(ex.call_root(A + 'h_new', [SrcSlice(0, 0, 0)]))
                ex.call_root(H + 'set_extras_' + SFX, [Ref(other, ()), 7])
                if not is_bytes and i % 2 == 1:
                    # through SpannedIter::clone_from
                    so = Cell(ex.call_root(H + 'spanned_a', [other.val]))
                    sl_ = Cell(ex.call_root(H + 'spanned_a', [ex.call_root(A + 'h_clone', [lref])]))
                    ex.call_root(H + 'spanned_clone_from_a', [Ref(so, ()), Ref(sl_, ())])
                    other = Cell(ex.call_root(H + 'spanned_into_a', [so.val]))
                else:
                    ex.call_root(H + 'clone_from_' + SFX, [Ref(other, ()), lref])
                if canon(lex.val) != before:
                    fail('clone_from changed its argument')
                if canon(other.val) != before:
                    fail(f'after a.clone_from(&b) a differs from b: {canon(other.val)} vs {before}')
                rc_ = ex.call_root(A + 'h_next', [Ref(other, ())])
                ro = ex.call_root(A + 'h_next', [lref])
                if canon(ro) != canon(rc_) or canon(lex.val) != canon(other.val):
                    fail(f'clone_from copy and original diverge: copy {canon(rc_)} {canon(other.val)} vs original {canon(ro)} {canon(lex.val)}')
                trace.append(canon(ro))
            elif name == 'morph_roundtrip':
                before = lexer_state(ex, lex)
                l2 = Cell(ex.call_root(H + 'morph_ab', [lex.val]))
                mid = lexer_state(ex, l2)
                for k in ('token_start', 'token_end', 'is_prefix', 'extras'):
                    if str(mid[k]) != str(before[k]):
                        fail(f'morph changed {k}: {before[k]} -> {mid[k]}')
                lex = Cell(ex.call_root(H + 'morph_ba', [l2.val]))
                after = lexer_state(ex, lex)
                for k in ('token_start', 'token_end', 'is_prefix', 'extras'):
                    if str(after[k]) != str(before[k]):
                        fail(f'morph there and back changed {k}: {before[k]} -> {after[k]}')
                trace.append('morph')
            elif name == 'morph_next_back':
                before = lexer_state(ex, lex)
                l2 = Cell(ex.call_root(H + 'morph_ab', [lex.val]))
                r = ex.call_root(B + 'h_next', [Ref(l2, ())])
                mid = lexer_state(ex, l2)
                if str(mid['token_start']) != str(before['token_end']) and canon(r)[1] != 0:
                    fail(f'morphed lexer did not continue at the previous end {before["token_end"]}: starts at {mid["token_start"]}')
                lex = Cell(ex.call_root(H + 'morph_ba', [l2.val]))
                after = lexer_state(ex, lex)
                for k in ('token_start', 'token_end', 'is_prefix', 'extras'):
                    if str(after[k]) != str(mid[k]):
                        fail(f'morph back changed {k}: {mid[k]} -> {after[k]}')
                trace.append(('b', canon(r)))
            elif name == 'spanned_step':
                c = ex.call_root(A + 'h_clone', [lref])
                sp = Cell(ex.call_root(H + 'spanned_a', [c]))
                x = ex.call_root(H + 'spanned_next_a', [Ref(sp, ())])
                y = ex.call_root(A + 'h_next', [lref])
                s, e = span_of(lex)
                cx, cy = canon(x), canon(y)
                if cy[1] == 0:
                    if cx[1] != 0:
                        fail(f'spanned() yields {cx} where manual iteration ends')
                else:
                    exp = ('agg', 1, (('agg', None, (cy[2][0], ('agg', None, (s, e)))),))
                    if cx != exp:
                        fail(f'spanned() yields {cx}, manual iteration {exp}')
                trace.append(cy)
            elif name == 'spanned_resume':
                # one SpannedIter kept across two calls with an in-range bump through DerefMut in between (after a None of a
                # partial lexer the iterator must go on exactly like the lexer it wraps)
                c = ex.call_root(A + 'h_clone', [lref])
                sp = Cell(ex.call_root(H + 'spanned_a', [c]))
                for rnd_ in (0, 1):
                    x = ex.call_root(H + 'spanned_next_a', [Ref(sp, ())])
                    y = ex.call_root(A + 'h_next', [lref])
                    s, e = span_of(lex)
                    cx, cy = canon(x), canon(y)
                    if cy[1] == 0:
                        if cx[1] != 0:
                            fail(f'spanned() yields {cx} where manual iteration ends (call {rnd_ + 1})')
                    else:
                        exp = ('agg', 1, (('agg', None, (cy[2][0], ('agg', None, (s, e)))),))
                        if cx != exp:
                            fail(f'spanned() yields {cx}, manual iteration {exp} (call {rnd_ + 1} on one iterator)')
                    trace.append(cy)
                    if rnd_ == 0:
                        st = lexer_state(ex, lex)
                        e0 = st['token_end']
                        if not isinstance(e0, int):
                            raise EngineError('symbolic token_end in history')
                        okb = lexcheck.is_boundary_term(ex, e0 + 1)
                        inr = simp(z3.ULE(bvv(e0 + 1, U), ex.len))
                        if ex.decide([s_and(inr, okb), s_not(s_and(inr, okb))]) == 0:
                            ex.call_root(H + 'spanned_bump_a', [Ref(sp, ()), 1])
                            ex.call_root(A + 'h_bump', [lref, 1])
            check_accessors(lex, f'op {i} ({name})')
            ext = ex.call_root(H + 'extras_' + SFX, [Ref(lex, ())])
            if ext != 41:
                fail(f'extras changed to {ext} after op {i} ({name})')
            st = lexer_state(ex, lex)
            if st['is_prefix'] != partial:
                fail(f'partial mode flag changed after op {i} ({name})')
        return tuple(str(t)[:40] for t in trace)

    def on_leaf(ex, leaf):
        out['leaves'] += 1
        out['kinds'][leaf[0]] = out['kinds'].get(leaf[0], 0) + 1
        if leaf[0] == 'panic':
            fail('panic in history: ' + leaf[1][:100])
        elif leaf[0] == 'violation':
            out['failures'].append({'what': 'UB in history: ' + leaf[1][1], 'model': leaf[1][2], 'ops': ops})
        elif 'sample' not in out:
            m = ex.model_for(True)
            out['sample'] = {'ops': [OPS[o] for o in ops], 'input': bytes(m['bytes']).hex(), 'trace': leaf[1]}

    ex.explore(body, on_leaf)
    out['stats'] = dict(ex.stats)
    out['fns'] = sorted(ex.fn_seen)
    out['builtins'] = sorted(ex.builtins_used)
    return out


def c14(tier, seed):
    from .props import known_or_violation, log
    ev = report.Evidence('C14', tier, seed, 'other')
    K, N = (3, 3) if tier == 'quick' else (4, 4)
    defs = hist_defs()
    cfgs = ['tc-unsafe'] if tier == 'quick' else ['tc-unsafe', 'sm-safe']
    progs, times = pipeline.build_programs('hist-C14', defs, cfgs, extra=HIST_EXTRA)
    seqs = list(itertools.product(OPS_STR, repeat=K))
    seqs_b = list(itertools.product(OPS_BYTES, repeat=K))
    payloads = []
    for c in cfgs:
        for si, ops in enumerate(seqs):
            if c != cfgs[0] and si % 3 != seed % 3:
                continue                 # the second configuration runs a seeded third of the histories
            partial = (si % 5 == 4)      # every fifth history runs on a partial lexer (is_prefix must survive morph/clone)
            payloads.append(dict(key=f'{c}/{"".join(map(str, ops))}', mir=progs[c], ops=ops, N=N, partial=partial, budget=300))
        for si, ops in enumerate(seqs_b):
            payloads.append(dict(key=f'{c}/bytes/{"".join(map(str, ops))}', mir=progs[c], ops=ops, N=N, partial=(si % 7 == 6),
                                 budget=300, bytes=True))
    seqs = seqs + seqs_b
    random.Random(seed).shuffle(payloads)
    results = pipeline.run_tasks(task_history, payloads)
    rc = 0
    tot = dict(leaves=0, queries=0, solver_s=0.0)
    fns, stubs = set(), set()
    samples = []
    for st, key, r, wall in results:
        if st != 'ok':
            log(f'ENGINE: {key}: {str(r)[-600:]}')
            rc = 2
            continue
        tot['leaves'] += r['leaves']
        tot['queries'] += r['stats']['queries']
        tot['solver_s'] += r['stats']['solver_s']
        fns.update(r['fns'])
        stubs.update(r['builtins'])
        if 'sample' in r and len(samples) < 8:
            samples.append(r['sample'])
        seen = set()
        for f in r['failures']:
            sig = f['what'][:50]
            if sig in seen:
                continue
            seen.add(sig)
            info = {'property': 'C14', 'ops': [OPS[o] for o in f['ops']], 'input_hex': bytes(f['model']['bytes']).hex(),
                    'what': f['what'], 'cfg': key.split('/')[0],
                    'repro': 'apply the listed ops to hist_a::Tok::lexer(input) (see mirsym/history.py) and compare accessors'}
            role = {'what': f['what'].split(':')[0][:50]}
            rc = max(rc, known_or_violation('C14', role, f'history {[OPS[o] for o in f["ops"]]} input={info["input_hex"]}: {f["what"][:200]}',
                                            info, ev, 'h' + key.replace('/', '-') + str(abs(hash(sig)) % 1000)))
    ev.coverage = {
        'explanation': f'all {len(seqs)} histories of length {K} over {OPS} (every fifth on a partial lexer) are enumerated; for each the '
                       f'runtime MIR (Lexer::next/bump/clone/morph/spanned/span/slice/remainder, SpannedIter::next) is executed on symbolic '
                       f'input <= {N} bytes and the relational assertions (slice == source[span], remainder == source[end..], clone '
                       f'independence and agreement, morph preserves position/partial flag/extras, spanned == manual iteration) are decided '
                       f'per leaf; failures are reported from the path',
        'evaluations': tot['leaves'], 'distinct_nontrivial': tot['leaves'],
        'rule': 'one case = one leaf (history x input class); histories enumerated exhaustively up to K', 'samples': samples,
        'histories': len(seqs), 'history_length': K, 'exhaustive': True, 'obligations': tot['queries'], 'discharged': tot['queries'],
        'queries_discharged': tot['queries'], 'solver_s': round(tot['solver_s'], 1), 'checker_cmd': f'./check C14 --tier {tier}',
        'trusted_base': ['z3', 'rustc MIR export', 'core builtins'], 'functions_encoded': sorted(fns)[:200], 'stubs': sorted(stubs),
        'bounds': {'K_ops': K, 'N_bytes': N, 'configurations': cfgs, 'outside': 'histories longer than K; inputs longer than N; other token types'},
        'build_s': times,
    }
    ev.assumptions = ['bump only with in-range, char-boundary targets (the property quantifies over in-range bumps)',
                      'two token types over one str source with usize extras']
    if tot['leaves'] == 0:
        rc = max(rc, 2)
    ev.write()
    log(f'C14 {tier}: {len(seqs)} histories x {len(cfgs)} configurations, {tot["leaves"]} leaves, {tot["queries"]} queries, rc={rc}')
    return rc
