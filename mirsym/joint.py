"""Joint (product) explorations: the same symbolic input is pushed through two programs on one path tree.

C06: tail-call vs state-machine code generators (results, spans, skips, callback invocations, call depth)
C12: str-mode definition vs its utf8=false twin on valid UTF-8 input
"""
import re
import time

import z3

from . import lexcheck
from .exec import Agg, BF, Cell, EngineError, Exec, Panic, Ref, SrcPtr, SrcSlice, ConstBytes, Violation, is_sym

RX_USER_CB = re.compile(r'^corpus::\w+::(?:\w+::)*(cb_\w+|\{closure|Tok::\{closure)|^<corpus::\w+::Tok as logos::Logos<.*>>::lex::_(get_action|make_error)::\{closure')


def canon(v):
    """program-independent rendering of a value"""
    if isinstance(v, Agg):
        return ('agg', v.variant, tuple(canon(x) for x in v.fields))
    if isinstance(v, SrcSlice):
        return ('src', str(v.off), str(v.len))
    if isinstance(v, SrcPtr):
        return ('srcptr', str(v.off))
    if isinstance(v, ConstBytes):
        return ('const', bytes(b or 0 for b in v.data))
    if isinstance(v, BF):
        return ('bf', v.k, v.w, v.tab)
    if is_sym(v):
        return ('sym', v.sexpr())
    if isinstance(v, (int, bool)):
        return v
    return ('other', repr(v))


def step_outcome(ex, d, start, partial=False, module=None):
    """one next() from `start`; returns a program-independent outcome tuple or ('start-not-valid',) / ('panic', msg)"""
    mod = f'corpus::{module or d.id}::'
    lex = Cell(ex.call_root(mod + ('h_new_partial' if partial else 'h_new'), [ex.source()]))
    lref = Ref(lex, ())
    if start > 0:
        try:
            ex.call_root(mod + 'h_bump', [lref, start])
        except Panic:
            return ('start-not-valid',), lref
    ex.events = []
    ex.path_max_depth = 0
    try:
        out = ex.call_root(mod + 'h_next', [lref])
    except Panic as p:
        return ('panic', p.msg[:80]), lref
    events = ex.events
    ex.events = []
    item = lexcheck.decode_item(ex, out)
    sp = ex.call_root(mod + 'h_span', [lref])
    s, e = ex.concretize(sp.fields[0], 'span start', limit=ex.N + 2), ex.concretize(sp.fields[1], 'span end', limit=ex.N + 2)
    skips = tuple((str(ev[1]), str(ev[2])) for ev in events if ev[0] == 'trivia')
    cbs = tuple((ev[1].split('::')[-1] if False else cb_name(ev[1]), str(ev[2]), str(ev[3])) for ev in events if ev[0] == 'callback')
    if item[0] == 'ok':
        res = ('ok', item[1], canon(Agg(None, None, item[2])))
    elif item[0] == 'err':
        res = ('err', canon(item[1]))
    else:
        res = ('none',)
    return (res, str(s), str(e), skips, cbs, ex.path_max_depth), lref


def cb_name(n):
    # closures are named by their source position, which is identical across configurations
    m = re.search(r'\{closure[^}]*\}', n)
    return m.group(0) if m else n.split('::')[-1]


def install(ex):
    lexcheck.install_hooks(ex, callback_rx=re.compile(r'^corpus::\w+::(?:\w+::)*cb_\w+|^<corpus::\w+::Tok as logos::Logos<[^>]*>>::lex::_get_action::\{closure|^<corpus::\w+::Tok as logos::Logos<[^>]*>>::lex::_make_error::\{closure'))


def explore_pair(progA, progB, d, N, start, *, partial=False, budget=None, release=False):
    ex = Exec(progA, N, debug_assertions=not release, time_budget=budget)
    if d.utf8:
        ex.base.append(lexcheck.as_b(lexcheck.valid_utf8(ex)))
    install(ex)
    out = dict(leaves=0, failures=[], kinds={}, samples=[], depthA=[], depthB=[])

    def body(ex):
        # a generator whose next() exceeds its step budget "spins"; that is an outcome to compare, not an engine matter
        try:
            a, _ = step_outcome(ex, d, start, partial)
        except Violation as v:
            if v.kind != 'steps':
                raise
            a = (('spin',), '-', '-', (), ())
        with ex.using(progB):
            try:
                b, _ = step_outcome(ex, d, start, partial)
            except Violation as v:
                if v.kind != 'steps':
                    raise
                b = (('spin',), '-', '-', (), ())
        return a, b

    def on_leaf(ex, leaf):
        if leaf[0] == 'violation':
            # UB inside one of the two programs: C05's business; for the comparison the leaf is skipped
            out['kinds']['ub'] = out['kinds'].get('ub', 0) + 1
            return
        if leaf[0] == 'panic':
            out['failures'].append({'what': 'panic outside next(): ' + leaf[1], 'model': ex.model_for(True)})
            return
        a, b = leaf[1]
        if a == ('start-not-valid',) and b == ('start-not-valid',):
            return
        out['leaves'] += 1
        k = a[0][0] if isinstance(a[0], tuple) else a[0]
        out['kinds'][k] = out['kinds'].get(k, 0) + 1
        def coalesce(t):
            # how a skipped stretch is cut into pieces is not observable (results, spans, callbacks are): adjacent skip
            # regions are merged before the comparison
            if len(t) < 5 or not isinstance(t[3], tuple):
                return t
            m = []
            for s_, e_ in t[3]:
                if m and m[-1][1] == s_:
                    m[-1] = (m[-1][0], e_)
                else:
                    m.append((s_, e_))
            return t[:3] + (tuple(m),) + t[4:]
        a, b = coalesce(a), coalesce(b)
        if a[:5] != b[:5]:
            if len(out['failures']) < 10:
                out['failures'].append({'what': f'generators disagree: tail-call {a[:5]} vs state-machine {b[:5]}',
                                        'model': ex.model_for(True), 'a': a[:5], 'b': b[:5]})
        elif len(out['samples']) < 4:
            m = ex.model_for(True)
            out['samples'].append({'input': bytes(m['bytes']).hex(), 'start': start, 'outcome': repr(a[:5])[:200]})
        if len(a) > 5 and len(b) > 5:
            out['depthA'].append(a[5])
            out['depthB'].append(b[5])

    ex.explore(body, on_leaf)
    out['stats'] = dict(ex.stats)
    out['fns'] = sorted(ex.fn_seen)
    out['builtins'] = sorted(ex.builtins_used)
    return out


# ----------------------------------------------------------------------------- C12 twins
def explore_twins(prog, d_str, d_bytes, N, start, *, budget=None):
    """d_str (utf8) and d_bytes (its utf8=false twin) live in the same program"""
    ex = Exec(prog, N, time_budget=budget)
    ex.base.append(lexcheck.as_b(lexcheck.valid_utf8(ex)))
    install(ex)
    out = dict(leaves=0, failures=[], kinds={}, samples=[])

    def body(ex):
        a, _ = step_outcome(ex, d_str, start)
        if a[0] in ('start-not-valid',):
            return a, None
        b, lrefb = step_outcome(ex, d_bytes, start)
        if b[0] in ('start-not-valid', 'panic') or a[0] == 'panic':
            return a, b
        ra, rb = a[0], b[0]
        if ra[0] == 'err' and rb[0] == 'err':
            # byte mode reports the same bytes as errors, possibly in several one-step errors
            ea = int(a[2])
            eb = int(b[2])
            spans = [(b[1], b[2])]
            modb = f'corpus::{d_bytes.id}::'
            guard = 0
            while eb < ea:
                guard += 1
                if guard > 8:
                    break
                o = ex.call_root(modb + 'h_next', [lrefb])
                it = lexcheck.decode_item(ex, o)
                sp = ex.call_root(modb + 'h_span', [lrefb])
                if it[0] != 'err':
                    return a, ('bytes-twin-left-error-region', it[0], str(sp.fields[0]), str(sp.fields[1]))
                eb = int(sp.fields[1]) if isinstance(sp.fields[1], int) else -1
                spans.append((str(sp.fields[0]), str(sp.fields[1])))
                if eb < 0:
                    break
            if eb != ea:
                return a, ('bytes-twin-error-region-differs', spans)
            return a, (('err', 'same-bytes'), a[1], a[2], a[3], a[4])
        return a, b

    def on_leaf(ex, leaf):
        if leaf[0] != 'ok':
            if leaf[0] == 'panic':
                out['failures'].append({'what': 'panic: ' + leaf[1], 'model': ex.model_for(True)})
            else:
                out['kinds']['ub'] = out['kinds'].get('ub', 0) + 1
            return
        a, b = leaf[1]
        if b is None:
            return
        out['leaves'] += 1
        ka = a[0][0] if isinstance(a[0], tuple) else a[0]
        out['kinds'][ka] = out['kinds'].get(ka, 0) + 1
        same = False
        if isinstance(a[0], tuple) and isinstance(b[0], tuple):
            if a[0][0] == 'err' and b[0][0] == 'err':
                same = (a[1], a[2]) == (b[1], b[2]) and a[3] == b[3]
            else:
                same = (a[0][:2], a[1], a[2], a[3]) == (b[0][:2], b[1], b[2], b[3])
        if not same and len(out['failures']) < 10:
            out['failures'].append({'what': f'str mode {a[:4]} vs byte mode {b[:4] if isinstance(b, tuple) else b}',
                                    'model': ex.model_for(True)})
        elif len(out['samples']) < 4:
            m = ex.model_for(True)
            out['samples'].append({'input': bytes(m['bytes']).hex(), 'start': start, 'outcome': repr(a[:4])[:160]})

    ex.explore(body, on_leaf)
    out['stats'] = dict(ex.stats)
    out['fns'] = sorted(ex.fn_seen)
    out['builtins'] = sorted(ex.builtins_used)
    return out
