"""The corpus: definitions (programs axis).  Core = transcriptions/adaptations of the repository's
own test definitions and targeted shapes; families are generated mechanically (see functions below)."""
import itertools
import random

from .corpus import Def, Pat, R, T, Var

WS = R(r'[ \t]+')


def core():
    D = []
    # --- keywords vs identifiers, numbers, punctuation (tests/simple.rs shape)
    D.append(Def('kw_ident', skips=[WS], variants=[
        Var('Fast', [T('fast')]), Var('Ident', [R('[a-z]+')]), Var('Num', [R('[0-9]+')]), Var('Dot', [T('.')])],
        tags=('quick', 'loop')))
    # --- nested literal prefixes a / ab / abcd, with a regex competitor
    D.append(Def('nested_prefix', variants=[
        Var('A', [T('a')]), Var('Ab', [T('ab')]), Var('Abcd', [T('abcd')]), Var('X', [R('x+')])], tags=('quick',)))
    # --- classes with holes: compare chains, LUT masks (cmp_count 1/2/3)
    D.append(Def('holes', variants=[
        Var('H1', [R('[a-ce-z]+')]), Var('H2', [R('[0-46-9]')]), Var('H3', [R('[A-CE-GI-KM-O]')]),
        Var('D', [T('d')])], tags=('quick', 'loop')))
    # --- jump table at the root (>2 edges) with many single-char tokens
    D.append(Def('punct', skips=[R(' +')], variants=[
        Var('Plus', [T('+')]), Var('PlusPlus', [T('++')]), Var('Minus', [T('-')]), Var('Arrow', [T('->')]),
        Var('Star', [T('*')]), Var('LParen', [T('(')]), Var('RParen', [T(')')]), Var('Eq', [T('=')]),
        Var('EqEq', [T('==')]), Var('EqEqEq', [T('===')]), Var('FatArrow', [T('=>')]), Var('Ellipsis', [T('...')]),
        Var('Dot', [T('.')])], tags=('quick',)))
    # --- strings with escapes (rope + loop)
    D.append(Def('strings', skips=[R(' +')], variants=[
        Var('Str', [R(r'"([^"\\]|\\.)*"')]), Var('Id', [R('[a-z]+')])], tags=('loop',)))
    # --- end-of-input look-ahead
    D.append(Def('eoi_dollar', variants=[
        Var('AEnd', [R('a$', prio=3)]), Var('A', [T('a')]), Var('B', [R('b+')])], tags=('look', 'quick')))
    D.append(Def('eoi_only', variants=[Var('AEnd', [R('a$')]), Var('Bs', [R('b+c$')]), Var('B', [T('b')])], tags=('look', 'quick')))
    # --- round 5: counted repetitions and default priority; a root state that is a duplicate of a mid-token state;
    # separated lists whose mid-token state is merged into the root
    D.append(Def('prio_counted', skips=[R('-{2}')], variants=[
        Var('Year', [R('[0-9]{4}')]), Var('Hex', [R('[0-9a-f]+', prio=5)]), Var('Tag', [R('#{3}')]), Var('Hs', [R('#+', prio=4)]),
        Var('Dash', [R('-+', prio=3)])], tags=('quick', 'prio')))
    D.append(Def('prio_counted_b', utf8=False, variants=[
        Var('Ff', [R(b'\xFF{2,}')]), Var('Hi', [R(b'[\xF0-\xFF]+', prio=3)]), Var('Ab', [R(b'(ab){2,3}')]),
        Var('W', [R(b'[a-c]+', prio=7)])], tags=('quick', 'prio', 'bytes')))
    D.append(Def('root_dup', variants=[Var('A', [R('(ab)*a')]), Var('C', [R('(ab)*c')]), Var('Cd', [R('(ab)*cd')])],
                 tags=('quick', 'loop')))
    D.append(Def('root_dup_digits', variants=[Var('Num', [R('([0-9]_)*[0-9]')]), Var('Hex', [R('([0-9]_)*x[0-9a-f]+')])],
                 tags=('quick', 'loop')))
    D.append(Def('root_dup_skip', skips=[R('([0-9]_)* +')], variants=[
        Var('Num', [R('([0-9]_)*[0-9]')]), Var('Hex', [R('([0-9]_)*x[0-9a-f]+')])], tags=('quick', 'loop')))
    D.append(Def('sep_list', variants=[Var('Number', [R('[0-9](\\.[0-9])*')])], tags=('quick', 'loop')))
    D.append(Def('sep_list2', variants=[Var('C', [R('(c;)*c')]), Var('D', [R('(c;)*d')])], tags=('quick', 'loop')))
    D.append(Def('sep_list_ws', skips=[R(' +')], variants=[Var('Number', [R('[0-9](\\.[0-9])*')])], tags=('loop',)))
    # boundary bytes written as plain byte-string regex literals (outside classes): they go through Literal::escape
    D.append(Def('bytes_edges', utf8=False, subs=[('t', b'\x80')], skips=[R(b'\x80\x80')], variants=[
        Var('T80', [R(b'\x80[0-9]+')]), Var('T7f', [R(b'\x7f+x')]), Var('T81', [R(b'a\x81|\xbf\xc0')]), Var('Tc2', [R(b'\xc2[0-9]')]),
        Var('Tff', [R(b'\xfe\xff?\x00')]), Var('S', [R(b'(?&t)!')]), Var('N', [R(b'[0-9]+')])], tags=('bytes', 'quick')))
    # a str-mode definition for the long runs (8/16-byte blocks of the fast loops): look-up-table loop tests, a skip loop
    # in front of a token loop, a shorter match that is a prefix of a longer looping one.  Single-byte classes only: a
    # loop over multi-byte characters forks per character (lead byte), i.e. exponentially in the length of the run
    D.append(Def('long_ident', variants=[Var('Ident', [R('[a-zA-Z_][a-zA-Z0-9_]*')]), Var('Eq', [T('==')])], tags=('loop', 'long')))
    D.append(Def('long_float', variants=[Var('Num', [R('[0-9]+')]), Var('Float', [R('[0-9]+\\.[0-9]+')])], tags=('loop', 'long')))
    D.append(Def('long_skip', skips=[R(' +')], variants=[Var('X', [T('x')])], tags=('loop', 'long')))
    # literals whose tail is a linear run of more than eight single-byte states (word-wise comparison territory), next to
    # a one-byte literal sharing the first byte and an identifier loop sharing a later prefix
    D.append(Def('long_lit', variants=[Var('Doctype', [T('<!DOCTYPE html>')]), Var('Lt', [T('<')]), Var('Kw', [T('synchronized')]),
                                       Var('Id', [R('[a-z]+')]), Var('Cd', [R('<!\\[CDATA\\[[a-z]*\\]\\]>')])], tags=('loop', 'long')))
    # one- and two-edge states whose edge classes are rendered as compare chains (impl_fork_match): byte pairs 0x20 apart
    # with and without bit 5 set, ranges with one and two holes, full ranges minus isolated bytes, negated classes
    D.append(Def('cmp_shapes_b', utf8=False, skips=[R(b'\\\\[^\\n\\r]')], variants=[
        Var('A', [R(b'a[?_]')]), Var('B', [R(b'b[-M]')]), Var('C', [R(b'c[.N]c')]), Var('D', [R(b'd[:Z]')]), Var('E', [R(b'e[0P]')]),
        Var('F', [R(b'f[ @]')]), Var('G', [R(b'g[eE]g')]), Var('H', [R(b"h[^'\\\\]'")]), Var('I', [R(b'i[^xy]')]),
        Var('J', [R(b'j[^x]j')]), Var('K', [R(b'k[a-ce-g]')]), Var('L', [R(b'l[a-ce]l')]), Var('M', [R(b'm[^\\x00]')]),
        Var('N', [R(b'n[^\\xFF]n')]), Var('O', [R(b'o[\\x00-\\x09\\x0B-\\x7F]')]), Var('P', [R(b'p[^ab]')]), Var('Pa', [T(b'pa')]),
        Var('Q', [R(b'q[^x]', ignore_case=True)]), Var('Nl', [T(b'\n')])], tags=('bytes', 'quick', 'cmp')))
    D.append(Def('cmp_shapes_s', variants=[
        Var('Word', [R('[a-z]+')]), Var('Marked', [R('[a-z]+[?_]')]), Var('Int', [R('[0-9]+')]), Var('Exp', [R('[0-9]+[eE][0-9]+')]),
        Var('Ch', [R("'[[:ascii:]&&[^'\\\\]]'")]), Var('Run', [R('#[\\x00-\\x09\\x0B-\\x7F]#')]), Var('Z', [R('![:Z]')])],
        tags=('quick', 'cmp')))
    D.append(Def('look_confirm', variants=[
        Var('Word', [R('[a-z]+(?m:$)')]), Var('Line', [R('[a-z]+\\n')]), Var('Sp', [T(' ')]), Var('If', [R('if(?-u:\\b)')]),
        Var('IfSp', [R('if -')])], tags=('look', 'quick')))
    D.append(Def('word_boundary', utf8=False, variants=[
        Var('If', [R(rb'if\b')]), Var('Id', [R(rb'[a-z]+', prio=1)]), Var('Sp', [T(b' ')])], tags=('look', 'quick', 'loop')))
    D.append(Def('look_str', skips=[R(' +')], variants=[
        Var('Let', [R(r'let(?-u:\b)')]), Var('Id', [R('[a-z]+')]), Var('End', [R(r'[0-9]+$', prio=5)]), Var('Num', [R('[0-9]+')])],
        tags=('look', 'loop')))
    D.append(Def('look_alt', variants=[
        Var('BlockEnd', [R(r'\}|end(?-u:\b)')]), Var('Unknown', [R('.', prio=0)]), Var('BlockStart', [T('{')]),
        Var('Kw', [R(r'fo+(?-u:\b)|bar')]), Var('F', [T('f')])], tags=('look', 'quick', 'unicode')))
    D.append(Def('look_uni', variants=[
        Var('Price', [R('[0-9]+€$', prio=9)]), Var('N', [R('[0-9]+')]), Var('E', [T('€')]), Var('T', [R('aé+$', prio=7)]),
        Var('A', [R('aé*')])], tags=('look', 'unicode', 'quick')))
    D.append(Def('prio_multibyte', variants=[
        Var('Et', [T('é')]), Var('Word', [R('[a-zà-ÿ]+', prio=3)]), Var('Nihon', [T('日本')]), Var('Han', [R('[一-龥]+', prio=5)])],
        tags=('unicode', 'quick')))
    # alternatives that the graph de-duplication folds into one edge (ByteClass::merge), with 0xFF / 0x00 in the classes
    D.append(Def('merge_ff1', utf8=False, variants=[Var('B', [R(b'(\x00\x00|\xFF\x00)\x01')]), Var('P', [T(b' ')])],
                 tags=('bytes', 'quick')))
    D.append(Def('merge_ff2', utf8=False, variants=[Var('A', [R(b'(ab|\xFFb|\x00b)c')]), Var('P', [T(b' ')])],
                 tags=('bytes', 'quick')))
    D.append(Def('merge_ff3', utf8=False, variants=[Var('Hi', [R(b'([\x80-\xFE]x|\xFFx|zx)y')]), Var('P', [T(b' ')])],
                 tags=('bytes', 'quick')))
    D.append(Def('merge_str', variants=[Var('M', [R('(ab|éb|zb)c')]), Var('P', [T(' ')])], tags=('unicode', 'quick')))
    # --- negated classes folded into "range with exceptions" (non-looping, few edges), byte and str mode
    D.append(Def('neg_bytes', utf8=False, variants=[
        Var('Char', [R(b"'[^']'")]), Var('Quote', [T(b"'")]), Var('Esc', [R(rb'\\[^\n]')]), Var('Bs', [T(b'\\')]),
        Var('Two', [R(b'x[^ab]')])], tags=('bytes', 'quick', 'neg')))
    D.append(Def('neg_str', variants=[
        Var('Char', [R("'[^']'")]), Var('Quote', [T("'")]), Var('Esc', [R(r'\\.')]), Var('Bs', [T('\\')]),
        Var('NoC', [R('x[^c]')])], tags=('unicode', 'quick', 'neg')))
    D.append(Def('neg_loop_bytes', utf8=False, variants=[
        Var('Line', [R(rb'#[^\n]*', allow_greedy=True)]), Var('Nl', [T(b'\n')]), Var('Any', [R(b'(?s).', prio=0)])], tags=('bytes', 'loop', 'neg')))
    # --- minimal looping definitions for long inputs (several 8-byte batches, > 64 bytes)
    D.append(Def('long_loop', utf8=False, variants=[Var('W', [R(b'[a-z]+')]), Var('D', [T(b'.')])],
                 tags=('bytes', 'long')))
    # --- lazy quantifier: same language as greedy
    D.append(Def('lazy', variants=[
        Var('Q', [R(r'<.*?>', allow_greedy=None)]), Var('L', [R('[a-z]+')])], tags=('loop',)))
    D.append(Def('lazy_triple', variants=[
        Var('Q', [R(r"'''[a-z']*?'''")]), Var('L', [R('[a-z]+')]), Var('T', [T("'")])], tags=()))
    # --- unicode classes and multi-byte literals
    D.append(Def('greek', skips=[R(' +')], variants=[
        Var('Greek', [R(r'\p{Greek}+')]), Var('Latin', [R('[a-z]+')])], tags=('unicode', 'loop')))
    D.append(Def('polish', variants=[
        Var('Pl', [R('[ąęśćżźńół]+')]), Var('Crab', [R('🦀+')]), Var('Cool', [T('😎')]), Var('E', [T('é')])],
        tags=('unicode', 'quick')))
    D.append(Def('cyrillic_range', variants=[
        Var('Cy', [R(r'[\u0400-\u04FF]+')]), Var('Any', [R(r'[\u{0}-\u{10FFFF}]', prio=0)])], tags=('unicode',)))
    # --- negated class / dot (wide fan-out)
    D.append(Def('negated', variants=[
        Var('NotSp', [R(r'[^ \t\n]+')]), Var('Sp', [R(r'[ \t\n]')])], tags=('unicode', 'loop')))
    D.append(Def('dot', variants=[
        Var('Any', [R('.', prio=0)]), Var('A', [T('a')]), Var('Nl', [T('\n')])], tags=('unicode',)))
    # --- byte mode
    D.append(Def('bytes_basic', utf8=False, variants=[
        Var('Cafe', [T(b'\xCA\xFE\xBE\xEF')]), Var('Nul', [T(b'\x00')]), Var('Hi', [R(b'[\xA0-\xAF]+')]),
        Var('B', [R(b'\x42+')]), Var('Any', [R(b'.', prio=0)])], tags=('bytes', 'quick')))
    D.append(Def('bytes_text', utf8=False, skips=[R(b' +')], variants=[
        Var('Word', [R(b'[a-z]+')]), Var('Num', [R(b'[0-9]+')]), Var('Uni', [R('é+')])], tags=('bytes',)))
    # --- numbers (css/advanced shapes)
    D.append(Def('numbers', skips=[R(' +')], variants=[
        Var('Int', [R('[0-9][0-9_]*')]), Var('Float', [R(r'[0-9][0-9_]*\.[0-9][0-9_]*')]),
        Var('Exp', [R(r'[0-9][0-9_]*[eE][+-]?[0-9][0-9_]*')]), Var('Hex', [R('0x[0-9a-fA-F]+')]),
        Var('Dot', [T('.')])], tags=('loop',)))
    D.append(Def('signed', variants=[
        Var('I', [R('-?[0-9]+')]), Var('F', [R(r'-?[0-9]+\.[0-9]+')]), Var('Minus', [T('-')]), Var('Dot', [T('.')])],
        tags=()))
    # --- keywords sharing prefixes
    D.append(Def('keywords', skips=[R(' +')], variants=[
        Var('Try', [R('try|type|typeof')]), Var('In', [T('in')]), Var('Instanceof', [T('instanceof')]),
        Var('Else', [T('else')]), Var('ElseIf', [T('else if')]), Var('Id', [R('[a-z]+')])], tags=('quick',)))
    # --- nested / overlapping repetitions (exponential for backtrackers)
    D.append(Def('nested_rep1', variants=[Var('X', [R('(xx+|y)+')]), Var('Z', [T('z')])], tags=('backtrack', 'loop')))
    D.append(Def('nested_rep2', variants=[Var('C', [R('c(a*b?)*c')]), Var('A', [R('a+')])], tags=('backtrack', 'loop')))
    D.append(Def('nested_rep3', variants=[Var('P', [R(r'([a-b]+\.)+[a-b]')]), Var('W', [R('[a-b]+')]),
                                           Var('Dot', [T('.')])], tags=('backtrack', 'loop')))
    D.append(Def('nested_rep4', variants=[Var('F', [R('f(f*oo)*')]), Var('O', [T('o')])], tags=('backtrack',)))
    D.append(Def('alt_rep', variants=[Var('A', [R('a|a*b')]), Var('G', [R('(abc)+(def|xyz)?', prio=20)]),
                                      Var('L', [R('[c-z]')])], tags=('backtrack',)))
    D.append(Def('aplus_dot', variants=[Var('A', [R('(A+.)*A+')]), Var('L', [R('[b-z]')])], tags=('backtrack', 'unicode')))
    # --- comments
    D.append(Def('comments', skips=[R(r'/\*([^*]|\*+[^*/])*\*+/'), R(' +')], variants=[
        Var('Slash', [T('/')]), Var('Star', [T('*')]), Var('Id', [R('[a-z]+')])], tags=('loop', 'unicode')))
    # --- explicit priorities
    D.append(Def('prio_not_in', skips=[R(' +', prio=1)], variants=[
        Var('Not', [T('not', prio=50)]), Var('NotIn', [T('not in', prio=60)]), Var('Id', [R('[a-z]+')])], tags=('quick',)))
    D.append(Def('prio_z', variants=[
        Var('HasZ', [R('[a-zA-Z0-9]*[Z][a-zA-Z0-9]*', prio=3)]), Var('NoZ', [R('[a-zA-Y]+', prio=3)])], tags=('loop',)))
    D.append(Def('prio_dot', utf8=True, variants=[
        Var('Dot', [R('.', prio=100)]), Var('A', [T('a')]), Var('Num', [R('[0-9]+', prio=200)])], tags=('unicode',)))
    # --- ignore case
    D.append(Def('icase', variants=[
        Var('El', [T('élÉ', ignore_case=True)]), Var('Bc', [R('bc', ignore_case=True)]),
        Var('G', [R('gg?', ignore_case=True)]), Var('K', [T('k')])], tags=('unicode', 'quick')))
    D.append(Def('icase_bytes', utf8=False, variants=[
        Var('The', [T(b'the', ignore_case=True)]), Var('La', [T(b'l\xC3\xA0', ignore_case=True)]),
        Var('I', [R(b'i(\xC2\xA7)?', prio=3, ignore_case=True)]), Var('Sp', [T(b' ')])], tags=('bytes',)))
    # --- optional tails / bounded repetition
    D.append(Def('bounded', variants=[
        Var('Hex2', [R('[0-9A-F][0-9A-F]a?')]), Var('Oct', [R(r'\\[0-7]{1,3}')]), Var('U', [R(r'\\u\{[^}]*\}')]),
        Var('Bs', [T('\\')])], tags=('unicode',)))
    D.append(Def('maybe_end', variants=[
        Var('N', [R('-?[0-9][0-9_]?')]), Var('M', [T('-')]), Var('U', [T('_')])], tags=('quick',)))
    # --- skip only / ends in skip / several skips
    D.append(Def('skips', skips=[R(r'[ \t]+'), R(r'#[a-z]*\n'), T(';')], variants=[
        Var('W', [R('[a-z]+')]), Var('Hash', [T('#')])], tags=('quick', 'loop')))
    # callback-less skips of the shape opener + unbounded loop (line comments): the end of a partial buffer inside the
    # comment must not commit the part seen so far
    D.append(Def('skip_comments_b', utf8=False, skips=[R(rb'//[^\n]*', allow_greedy=True), R(rb'[ \t\n]+')], variants=[
        Var('W', [R(b'[a-z]+')]), Var('Slash', [T(b'/')]), Var('Num', [R(b'[0-9]+')])], tags=('quick', 'loop', 'bytes')))
    D.append(Def('skip_comments_s', skips=[R(r'--[a-z ]*'), R(r'[ \t\n]+')], variants=[
        Var('W', [R('[a-z]+')]), Var('Minus', [T('-')]), Var('Arrow', [T('->')])], tags=('quick', 'loop')))
    # more than 64 patterns (anything that keeps per-leaf sets in a machine word): 66 keyword tokens, then the
    # non-extendable punctuation tokens and an identifier with the highest leaf indices
    D.append(Def('many_patterns', skips=[R(' +')], variants=[Var(f'K{i:02d}', [T(f'k{i:02d}')]) for i in range(66)] + [
        Var('Semi', [T(';')]), Var('LParen', [T('(')]), Var('Assign', [T(':=')]), Var('Colon', [T(':')]), Var('Id', [R('[a-jl-z]+')])],
        tags=('quick', 'loop')))
    # a *skip* pattern that ends in a look-ahead (line continuation: a backslash in front of a line end), in a state with
    # no self loop and no other live pattern; and look-aheads whose confirming byte the repetition in front of them can
    # also consume, so that a late-accept state carries a self loop
    D.append(Def('look_skip', skips=[R(r'\\(?m:$)'), R('[ \\n]+')], variants=[Var('W', [R('[a-z]+')]), Var('Semi', [T(';')])],
                 tags=('look', 'quick')))
    D.append(Def('look_loop', variants=[Var('Lines', [R('(?m)[a-z\\n]+$')]), Var('As', [R('#a+(?-u:\\B)')]), Var('Sp', [T(' ')]),
                                        Var('Hash', [T('#')])], tags=('look', 'loop', 'quick')))
    # skips whose match is a proper prefix of something longer the automaton keeps reading (over-read, then fall back to the
    # skip): a definition without any callback
    D.append(Def('skip_overread', skips=[R(r'\.'), R(r'([ \t]|\r?\n)+')], variants=[
        Var('Ellipsis', [T('...')]), Var('W', [R('[a-z]+')]), Var('Cr', [T('\r\r')])], tags=('quick', 'loop')))
    # a non-root state with three or more outgoing edges (jump table in the middle of a token) where lexing can die with no
    # match pending
    D.append(Def('fork_mid', variants=[
        Var('Let', [T('let')]), Var('Les', [T('les')]), Var('Lex', [T('lex')]), Var('Hex', [R('0x[0-9a-f]+')]), Var('Bin', [R('0b[01]+')]),
        Var('Oct', [R('0o[0-7]+')]), Var('Plus', [T('+')])], tags=('quick', 'loop')))
    # a look-ahead assertion followed by exactly one more byte that itself satisfies the assertion, in the same pattern and
    # through a second pattern: a state that is both an early accept of the longer match and a late accept of the shorter
    D.append(Def('look_tail', variants=[
        Var('Foo', [R('foo(?-u:\\b)-?')]), Var('If', [R('if(?-u:\\b)')]), Var('IfP', [T('if(')]), Var('Minus', [T('-')]),
        Var('LP', [T('(')]), Var('Sp', [T(' ')])], tags=('look', 'quick')))
    # --- several attributes on one variant
    D.append(Def('multi_attr', variants=[
        Var('Unit', [R('em|ex|ch|rem|vw|vh|vmin|vmax'), R('cm|mm|Q|in|pc|pt|px', prio=3)]),
        Var('Num', [R('[0-9]+')])], tags=()))
    # --- subpatterns
    D.append(Def('subpat', subs=[('xdigit', '[0-9a-fA-F]'), ('a', 'A'), ('b', '(?&a)BB(?&a)')], variants=[
        Var('Hex', [R('0[xX](?&xdigit)+')]), Var('B', [R('~?(?&b)~?')]), Var('Zero', [T('0')])], tags=('subpat', 'quick')))
    return D


def reject_core():
    """definitions the derive must reject (C03 empty match, C04/C12 non-UTF-8, C11 undefined subpattern)"""
    D = []
    D.append(Def('rej_empty_star', variants=[Var('A', [R('a*')])], expect='reject', tags=('empty',)))
    D.append(Def('rej_empty_opt', variants=[Var('A', [R('(ab)?')]), Var('B', [T('b')])], expect='reject', tags=('empty',)))
    D.append(Def('rej_empty_alt', variants=[Var('A', [R('a|')])], expect='reject', tags=('empty',)))
    D.append(Def('rej_empty_skip', skips=[R(' *')], variants=[Var('A', [T('a')])], expect='reject', tags=('empty',)))
    D.append(Def('rej_empty_token', variants=[Var('A', [T('')]), Var('B', [T('b')])], expect='reject', tags=('empty',)))
    D.append(Def('rej_empty_look', variants=[Var('A', [R('$')]), Var('B', [T('b')])], expect='reject', tags=('empty',)))
    D.append(Def('rej_nonutf8_bytes_tok', variants=[Var('A', [T(b'\xFF')])], expect='reject', tags=('nonutf8',)))
    D.append(Def('rej_nonutf8_class', variants=[Var('A', [R(b'[\x80-\xFF]+')])], expect='reject', tags=('nonutf8',)))
    D.append(Def('rej_nonutf8_dot', variants=[Var('A', [R('(?s-u:.)')])], expect='reject', tags=('nonutf8',)))
    D.append(Def('rej_nonutf8_sub', subs=[('x', b'\xC3')], variants=[Var('A', [R('a(?&x)')])], expect='reject',
                 tags=('nonutf8', 'subpat')))
    D.append(Def('rej_nonutf8_skip', skips=[R(b'\xC2')], variants=[Var('A', [R('[a-z]+')])], expect='reject', tags=('nonutf8',)))
    D.append(Def('rej_nonutf8_skip2', skips=[R('(?-u:[\\x80-\\xBF])+')], variants=[Var('A', [R('[a-z]+')])], expect='reject',
                 tags=('nonutf8',)))
    # the same with allow_greedy = true (the greedy-repetition check and the UTF-8 check are separate conditions)
    D.append(Def('rej_nonutf8_greedy', variants=[Var('A', [R(b'#[^\n]*', allow_greedy=True)]), Var('W', [R('[a-z]+')])], expect='reject',
                 tags=('nonutf8',)))
    D.append(Def('rej_nonutf8_greedy_skip', skips=[R(b'[\x80-\xBF]', allow_greedy=True)], variants=[Var('W', [R('[a-z]+')])],
                 expect='reject', tags=('nonutf8',)))
    D.append(Def('rej_nonutf8_greedy_dot', variants=[Var('A', [R('(?s-u)/.*', allow_greedy=True)]), Var('W', [R('[a-z]+')])],
                 expect='reject', tags=('nonutf8',)))
    D.append(Def('rej_nonutf8_prio', variants=[Var('A', [R(b'[\xC0-\xFF]x', prio=9)]), Var('W', [R('[a-z]+')])], expect='reject',
                 tags=('nonutf8',)))
    D.append(Def('rej_nonutf8_ic', variants=[Var('A', [T(b'\xE9t\xE9', ignore_case=True)]), Var('W', [R('[a-z]+')])], expect='reject',
                 tags=('nonutf8',)))
    # subpatterns written as *str* literals that leave UTF-8 through (?-u:...), unused and used
    D.append(Def('rej_nonutf8_sub_str', subs=[('x', '(?s-u:.)')], variants=[Var('A', [R('[a-z]+')])], expect='reject',
                 tags=('nonutf8', 'subpat')))
    D.append(Def('rej_nonutf8_sub_str2', subs=[('hi', '(?-u:[\\x80-\\xFF])')], variants=[Var('A', [R('a(?&hi)')])], expect='reject',
                 tags=('nonutf8', 'subpat')))
    D.append(Def('rej_skip_tie', skips=[R('[ \\t\\n]'), R('\\n')], variants=[Var('W', [R('[a-z]+')])], expect='reject', tags=('tie',)))
    D.append(Def('rej_skip_tie2', skips=[T(' '), R(' ')], variants=[Var('W', [R('[a-z]+')])], expect='reject', tags=('tie',)))
    D.append(Def('rej_skip_tie3', skips=[R('#+', prio=7), R('#{2}', prio=7)], variants=[Var('H', [T('#')])], expect='reject',
                 tags=('tie',)))
    D.append(Def('rej_undef_sub', variants=[Var('A', [R('a(?&nope)b')])], expect='reject', tags=('subpat',)))
    D.append(Def('rej_greedy_dot', variants=[Var('A', [R('a.*')])], expect='reject', tags=('greedy',)))
    return D


def all_defs():
    return core() + reject_core()


def all_defs_extended():
    """every definition any check may reference (for replay lookups)"""
    return all_defs()


# ----------------------------------------------------------------------------- callbacks (C13, C06)
CB_PRELUDE = '''
#[derive(Debug, PartialEq, Clone, Default)]
pub enum MyErr { #[default] Default, Bad(u8), FromUnit }
impl From<u8> for MyErr { fn from(b: u8) -> Self { MyErr::Bad(b) } }
impl From<()> for MyErr { fn from(_: ()) -> Self { MyErr::FromUnit } }
pub type L<'s> = Lexer<'s, Tok>;
fn first(lex: &L) -> u8 { lex.slice().as_bytes()[0] }
fn last(lex: &L) -> u8 { let s = lex.slice().as_bytes(); s[s.len() - 1] }
'''


def cb_defs():
    D = []
    # every documented return type on unit variants
    D.append(Def('cb_unit', error='MyErr', prelude=CB_PRELUDE + '''
pub fn cb_unit(_lex: &mut L) {}
pub fn cb_bool(lex: &mut L) -> bool { lex.slice().len() % 2 == 0 }
pub fn cb_result_unit(lex: &mut L) -> Result<(), u8> { if last(lex) == b'x' { Err(lex.slice().len() as u8) } else { Ok(()) } }
pub fn cb_skip(_lex: &mut L) -> Skip { Skip }
pub fn cb_result_skip(lex: &mut L) -> Result<Skip, u8> { if lex.slice().len() > 2 { Err(7) } else { Ok(Skip) } }
''', variants=[
        Var('U', [R('u+', cb='cb_unit', cb_kind='unit', cb_fn='cb_unit')]),
        Var('B', [R('b+', cb='cb_bool', cb_kind='bool', cb_fn='cb_bool')]),
        Var('R', [R('r[a-z]', cb='cb_result_unit', cb_kind='result_unit', cb_fn='cb_result_unit')]),
        Var('S', [R('s+', cb='cb_skip', cb_kind='skip', cb_fn='cb_skip')]),
        Var('Q', [R('q+', cb='cb_result_skip', cb_kind='result_skip', cb_fn='cb_result_skip')]),
        Var('Plain', [T('p')])], tags=('cb', 'quick')))
    # value variants
    D.append(Def('cb_value', error='MyErr', prelude=CB_PRELUDE + '''
pub fn cb_value(lex: &mut L) -> usize { lex.slice().len() }
pub fn cb_option(lex: &mut L) -> Option<u8> { if first(lex) == b'0' { None } else { Some(last(lex)) } }
pub fn cb_result(lex: &mut L) -> Result<u8, u8> { if lex.slice().len() > 2 { Err(last(lex)) } else { Ok(first(lex)) } }
pub fn cb_filter(lex: &mut L) -> Filter<usize> { if last(lex) == b'!' { Filter::Skip } else { Filter::Emit(lex.span().start) } }
pub fn cb_filter_result(lex: &mut L) -> FilterResult<u8, u8> {
    match lex.slice().len() { 1 => FilterResult::Skip, 2 => FilterResult::Emit(last(lex)), _ => FilterResult::Error(3) }
}
''', variants=[
        Var('V', [R('v+', cb='cb_value', cb_kind='value', cb_fn='cb_value')], field='usize'),
        Var('O', [R('[0-9]+', cb='cb_option', cb_kind='option', cb_fn='cb_option')], field='u8'),
        Var('R', [R('r+', cb='cb_result', cb_kind='result', cb_fn='cb_result')], field='u8'),
        Var('F', [R('f!?', cb='cb_filter', cb_kind='filter', cb_fn='cb_filter')], field='usize'),
        Var('G', [R('g+', cb='cb_filter_result', cb_kind='filter_result', cb_fn='cb_filter_result')], field='u8')],
        tags=('cb', 'quick')))
    D.append(Def('value_slice', skips=[R(' +')], variants=[
        Var('Sl', [R('[x-z]+')], field="&'s str"), Var('Num', [R('[0-9]+')], field="&'s str"), Var('C', [T(',')])],
        tags=('cb', 'quick')))
    # "any token" callbacks on unit variants, inline closure syntax, named callback argument
    D.append(Def('cb_token', error='MyErr', prelude=CB_PRELUDE + '''
pub fn cb_token(lex: &mut L) -> Tok { if lex.slice().len() == 1 { Tok::One } else { Tok::Many } }
pub fn cb_result_token(lex: &mut L) -> Result<Tok, u8> { if first(lex) == b'n' { Err(1) } else { Ok(Tok::Many) } }
pub fn cb_filter_token(lex: &mut L) -> Filter<Tok> { if lex.slice().len() > 1 { Filter::Skip } else { Filter::Emit(Tok::One) } }
pub fn cb_inline(lex: &mut L) -> bool { first(lex) != b'I' }
''', variants=[
        Var('One', [R('t+', cb='cb_token', cb_kind='token', cb_fn='cb_token')]),
        Var('Many', [R('[mn]+', cb='cb_result_token', cb_kind='result_token', cb_fn='cb_result_token', cb_named=True)]),
        Var('Fl', [R('l+', cb='cb_filter_token', cb_kind='filter_token', cb_fn='cb_filter_token')]),
        Var('In', [R('[iI]', cb='|lex| cb_inline(lex)', cb_kind='bool', cb_fn='cb_inline')])], tags=('cb',)))
    # skips with callbacks, extras, error callback, bump inside a callback
    D.append(Def('cb_skip_err', error='MyErr', error_cb='cb_err', extras='usize', prelude=CB_PRELUDE + '''
pub fn cb_err(lex: &mut L) -> MyErr { MyErr::Bad(lex.slice().len() as u8) }
pub fn cb_newline(lex: &mut L) { lex.extras += 1; }
pub fn cb_skip_result(lex: &mut L) -> Result<(), u8> { if first(lex) == b'e' { Err(9) } else { Ok(()) } }
pub fn cb_bump(lex: &mut L) -> bool {
    let r = lex.remainder().as_bytes();
    if !r.is_empty() && r[0] == b'+' { lex.bump(1); }
    true
}
pub fn cb_bool(lex: &mut L) -> bool { lex.slice().len() != 3 }
pub fn cb_opt(lex: &mut L) -> Option<u8> { if lex.slice().len() == 2 { None } else { Some(first(lex)) } }
pub fn cb_filter_res(lex: &mut L) -> FilterResult<u8, u8> {
    match lex.slice().len() { 1 => FilterResult::Skip, 2 => FilterResult::Emit(1), _ => FilterResult::Error(4) }
}
''', skips=[R(r'\n', cb='cb_newline', cb_kind='skip_unit', cb_fn='cb_newline'),
            R('e|f', cb='cb_skip_result', cb_kind='skip_result', cb_fn='cb_skip_result')], variants=[
        Var('W', [R('w+', cb='cb_bump', cb_kind='bool', cb_fn='cb_bump')]),
        Var('A', [R('a+', cb='cb_bool', cb_kind='bool', cb_fn='cb_bool')]),
        Var('Plus', [T('+')])], tags=('cb', 'cb_err', 'no_consumption_rule', 'quick')))
    # error callback together with callbacks that can yield the *default* error (Option::None, false) or Error(e)
    D.append(Def('cb_err_opt', error='MyErr', error_cb='cb_err', prelude=CB_PRELUDE + '''
pub fn cb_err(lex: &mut L) -> MyErr { MyErr::Bad(lex.slice().len() as u8) }
pub fn cb_opt(lex: &mut L) -> Option<u8> { if lex.slice().len() == 2 { None } else { Some(first(lex)) } }
pub fn cb_bool(lex: &mut L) -> bool { lex.slice().len() != 3 }
pub fn cb_filter_res(lex: &mut L) -> FilterResult<u8, u8> {
    match lex.slice().len() { 1 => FilterResult::Skip, 2 => FilterResult::Emit(1), _ => FilterResult::Error(4) }
}
''', variants=[
        Var('O', [R('o+', cb='cb_opt', cb_kind='option', cb_fn='cb_opt')], field='u8'),
        Var('B', [R('b+', cb='cb_bool', cb_kind='bool', cb_fn='cb_bool')]),
        Var('G', [R('g+', cb='cb_filter_res', cb_kind='filter_result', cb_fn='cb_filter_res')], field='u8'),
        Var('P', [T('p')])], tags=('cb', 'cb_err', 'quick')))
    D.append(Def('cb_reject', error='MyErr', error_cb='cb_err', prelude=CB_PRELUDE + '''
pub fn cb_err(lex: &mut L) -> MyErr { MyErr::Bad(lex.slice().len() as u8) }
pub fn cb_three(lex: &mut L) -> bool { lex.slice().len() != 3 }
pub fn cb_bump_reject(lex: &mut L) -> bool {
    let r = lex.remainder().as_bytes();
    if !r.is_empty() && r[0] == b'!' { lex.bump(1); return false; }
    true
}
pub fn cb_opt_unit(lex: &mut L) -> Option<()> { if first(lex) == b'q' && lex.slice().len() == 2 { None } else { Some(()) } }
''', variants=[
        Var('Int', [R('[0-9]+', cb='cb_three', cb_kind='bool', cb_fn='cb_three')]),
        Var('Float', [R(r'[0-9]+\.[0-9]+')]),
        Var('W', [R('w+', cb='cb_bump_reject', cb_kind='bool', cb_fn='cb_bump_reject')]),
        Var('Q', [R('q+', cb='cb_opt_unit', cb_kind='option_unit', cb_fn='cb_opt_unit')]),
        Var('Dot', [T('.')]), Var('Bang', [T('!')])], tags=('cb', 'cb_err', 'no_consumption_rule', 'quick')))
    # the other two spellings of the error callback (named argument, inline closure) and a callback given as a path
    D.append(Def('cb_err_named', error='MyErr', error_cb='callback = cb_err', prelude=CB_PRELUDE + '''
pub fn cb_err(lex: &mut L) -> MyErr { MyErr::Bad(lex.slice().len() as u8) }
pub mod cbs { use super::*; pub fn cb_odd(lex: &mut L) -> bool { lex.slice().len() % 2 == 1 } }
''', variants=[Var('A', [R('a+', cb='cbs::cb_odd', cb_kind='bool', cb_fn='cb_odd')]), Var('B', [T('b')])], tags=('cb', 'cb_err', 'quick')))
    D.append(Def('cb_err_inline', error='MyErr', error_cb='|lex| cb_err(lex)', prelude=CB_PRELUDE + '''
pub fn cb_err(lex: &mut L) -> MyErr { MyErr::Bad(lex.slice().len() as u8) }
pub fn cb_optv(lex: &mut L) -> Option<u8> { if lex.slice().len() == 2 { None } else { Some(first(lex)) } }
''', variants=[Var('O', [R('o+', cb='cb_optv', cb_kind='option', cb_fn='cb_optv')], field='u8'), Var('B', [T('b')])],
        tags=('cb', 'cb_err', 'quick')))
    # a look-ahead pattern and a second pattern that matches its text plus exactly the byte confirming the look-ahead:
    # the longer match (and its callback) must win
    D.append(Def('cb_look_confirm', error='MyErr', prelude=CB_PRELUDE + '''
pub fn cb_wlen(lex: &mut L) -> usize { lex.slice().len() }
pub fn cb_line(lex: &mut L) -> Filter<usize> { if lex.slice().len() > 3 { Filter::Skip } else { Filter::Emit(lex.slice().len()) } }
''', variants=[
        Var('Word', [R('[a-z]+(?m:$)', cb='cb_wlen', cb_kind='value', cb_fn='cb_wlen')], field='usize'),
        Var('Line', [R('[a-z]+\\n', cb='cb_line', cb_kind='filter', cb_fn='cb_line')], field='usize'),
        Var('Sp', [T(' ')])], tags=('cb', 'look', 'quick')))
    # skip *attributes* carrying callbacks on patterns that end in an unbounded repetition (early-accept looping states):
    # the callback must run for every skipped run (its Err, its extras update and its bump are observable)
    D.append(Def('cb_skip_loop', error='MyErr', extras='usize', prelude=CB_PRELUDE + '''
pub fn cb_lines(lex: &mut L) { lex.extras += lex.slice().len(); }
pub fn cb_dashes(lex: &mut L) -> Result<(), u8> { if lex.slice().len() == 2 { Err(2) } else { Ok(()) } }
pub fn cb_hash(lex: &mut L) {
    let r = lex.remainder().as_bytes();
    if !r.is_empty() && r[0] == b'!' { lex.bump(1); }
}
''', skips=[R(r'\n+', cb='cb_lines', cb_kind='skip_unit', cb_fn='cb_lines'),
            R('-+', cb='cb_dashes', cb_kind='skip_result', cb_fn='cb_dashes'),
            R('#+', cb='cb_hash', cb_kind='skip_unit', cb_fn='cb_hash'), R('/[a-z]*')], variants=[
        Var('W', [R('[a-z]+')]), Var('Bang', [T('!')])], tags=('cb', 'no_consumption_rule', 'quick', 'loop')))
    # byte-mode lexer whose callback bumps by a length taken from the match (records ending exactly at the end of input)
    D.append(Def('cb_bump_bytes', utf8=False, prelude='''
pub type L<'s> = Lexer<'s, Tok>;
pub fn cb_bumpn(lex: &mut L) -> bool {
    let n = (lex.slice()[0] - b'0') as usize;
    if lex.remainder().len() >= n { lex.bump(n); true } else { false }
}
pub fn cb_skipn(lex: &mut L) -> Skip {
    if !lex.remainder().is_empty() { lex.bump(1); }
    Skip
}
''', variants=[
        Var('Rec', [R(b'[0-3]', cb='cb_bumpn', cb_kind='bool', cb_fn='cb_bumpn')]),
        Var('Cm', [R(b'#', cb='cb_skipn', cb_kind='skip', cb_fn='cb_skipn')]),
        Var('A', [R(b'[a-b]+')])], tags=('cb', 'bytes', 'no_consumption_rule', 'quick')))
    return D


def all_defs():     # noqa: F811  (extends the earlier definition)
    return core() + reject_core() + cb_defs()


def all_defs_extended():    # noqa: F811
    return all_defs()


# ----------------------------------------------------------------------------- C10 literal family
def literal_family(seed=0, thorough=False):
    """tokens over an alphabet with every regex metacharacter, cased non-ASCII and raw bytes, +/- ignore(case)"""
    D = []
    metas = ['a.b', 'a+', '(x)', '[ab]', 'a|b', 'x*', '^a$', '\\d', '{2}', 'a?', '\\', '.*', '[^a]', '#', '&&', 'a-z', '~']
    for i in range(0, len(metas), 4):
        chunk = metas[i:i + 4]
        D.append(Def(f'lit_meta{i // 4}', variants=[Var(f'T{j}', [T(m)]) for j, m in enumerate(chunk)] + [
            Var('W', [R('[a-z]')])], tags=('lit', 'quick') if i == 0 else ('lit',)))
    punct = list('!"#$%&\'()*+,-./:;<=>?@[\\]^_`{|}~')
    for gi in range(0, len(punct), 8):
        chunk = punct[gi:gi + 8]
        D.append(Def(f'lit_punct{gi // 8}', variants=[Var(f'P{j}', [T('x' + c + c)]) for j, c in enumerate(chunk)] + [
            Var('X', [T('x')])], tags=('lit', 'quick') if gi == 16 else ('lit',)))
        D.append(Def(f'ic_punct_b{gi // 8}', utf8=False, variants=[
            Var(f'P{j}', [T(('x' + c + 'y').encode(), ignore_case=True)]) for j, c in enumerate(chunk)] + [Var('X', [T(b'x')])],
            tags=('lit', 'ic', 'bytes', 'quick') if gi == 16 else ('lit', 'ic', 'bytes')))
        D.append(Def(f'ic_punct_s{gi // 8}', variants=[
            Var(f'P{j}', [T('x' + c + 'y', ignore_case=True)]) for j, c in enumerate(chunk)] + [Var('X', [T('x')])],
            tags=('lit', 'ic')))
    D.append(Def('lit_unicode', variants=[Var('A', [T('é')]), Var('B', [T('Éa')]), Var('C', [T('ß')]), Var('D', [T('Σσ')]),
                                          Var('E', [T('日本')]), Var('F', [T('😀')])], tags=('lit', 'unicode', 'quick')))
    D.append(Def('lit_bytes', utf8=False, variants=[Var('A', [T(b'\xff\x00')]), Var('B', [T(b'\x80')]), Var('C', [T(b'a.b')]),
                                                    Var('D', [T(b'\xc3\xa9')]), Var('E', [T(b'[')])], tags=('lit', 'bytes', 'quick')))
    D.append(Def('lit_bytes_in_str', variants=[Var('A', [T(b'\xc3\xa9x')]), Var('B', [T(b'a+')]), Var('C', [T('a')])],
                 tags=('lit', 'unicode')))
    # ignore(case)
    D.append(Def('ic_tokens', variants=[Var('A', [T('ab', ignore_case=True)]), Var('B', [T('a.', ignore_case=True)]),
                                        Var('C', [T('É', ignore_case=True)]), Var('D', [T('ß', ignore_case=True)]),
                                        Var('E', [T('k', ignore_case=True)])], tags=('lit', 'ic', 'unicode', 'quick')))
    D.append(Def('ic_sigma', variants=[Var('S', [T('σ', ignore_case=True)]), Var('X', [T('x+', ignore_case=True)]),
                                       Var('M', [T('[m]', ignore_case=True)])], tags=('lit', 'ic', 'unicode')))
    D.append(Def('ic_bytes', utf8=False, variants=[Var('A', [T(b'aB', ignore_case=True)]), Var('B', [T(b'\xc3\xa9', ignore_case=True)]),
                                                   Var('C', [T(b'k.', ignore_case=True)]), Var('D', [T(b'\xff', ignore_case=True)])],
                 tags=('lit', 'ic', 'bytes', 'quick')))
    D.append(Def('ic_regex', skips=[R(' +', ignore_case=True)], variants=[
        Var('A', [R('[a-c]+x', ignore_case=True)]), Var('B', [R('é|ü', ignore_case=True)]),
        Var('C', [R('(?-i:q)r', ignore_case=True)]), Var('N', [R('[0-9]+', ignore_case=True)])], tags=('lit', 'ic', 'unicode')))
    D.append(Def('ic_skip', skips=[R('x+', ignore_case=True), T('ws', ignore_case=True)], variants=[
        Var('A', [R('[a-c]+')]), Var('B', [T('B')])], tags=('lit', 'ic', 'quick')))
    D.append(Def('ic_ascii_fold', variants=[Var('K', [T('kelvin', ignore_case=True)]), Var('S', [T('ss', ignore_case=True)]),
                                            Var('W', [R('[a-j]+')])], tags=('lit', 'ic', 'unicode')))
    D.append(Def('ic_prio', variants=[Var('L', [T('\u017ft', ignore_case=True)]), Var('W', [R('[a-z\u017f]+', prio=5)]),
                                      Var('K', [T('\u212a', ignore_case=True)]), Var('C', [R('[kK\u212a]', prio=3)])],
                 tags=('lit', 'ic', 'unicode', 'quick')))
    # ignore(case) literals whose kind differs from the lexer's mode: the folding follows the *literal* (str: Unicode
    # simple folding, byte string: ASCII only)
    D.append(Def('ic_mixed_b', utf8=False, variants=[
        Var('D', [T('d\u00e9but', ignore_case=True)]), Var('K', [T('k', ignore_case=True)]), Var('Q', [T(b'q\xC3\xA9', ignore_case=True)]),
        Var('Z', [T(b'zz')])], tags=('lit', 'ic', 'bytes', 'quick')))
    D.append(Def('ic_mixed_s', variants=[
        Var('C', [T(b'caf\xC3\xA9', ignore_case=True)]), Var('O', [T(b'ok', ignore_case=True)]), Var('E', [T('\u00e9', ignore_case=True)]),
        Var('X', [T('x')])], tags=('lit', 'ic', 'unicode', 'quick')))
    D.append(Def('ic_bytes_regex', utf8=False, variants=[
        Var('A', [R(b'(c|\xC3\xBB)+', ignore_case=True)]), Var('B', [R(b'a', ignore_case=True)]), Var('K', [R('k', ignore_case=True)])],
        tags=('lit', 'ic', 'bytes')))
    # ignore(case) on negated one-letter classes: in byte mode "every byte but x and X" is a full range with two isolated
    # holes on a state with one or two edges (compare chain with exceptions); next to an ignore(case) literal on the holes
    D.append(Def('ic_neg_b', utf8=False, variants=[
        Var('Q', [R(b'q[^x]', ignore_case=True)]), Var('NotX', [R(b'<[^x]+>', ignore_case=True)]), Var('X', [T(b'<x>', ignore_case=True)]),
        Var('Sp', [T(b' ')])], tags=('lit', 'ic', 'bytes', 'quick')))
    D.append(Def('ic_neg_s', variants=[
        Var('Q', [R('q[[:ascii:]&&[^x]]', ignore_case=True)]), Var('K', [R('k[^k]k', ignore_case=True)]), Var('Sp', [T(' ')])],
        tags=('lit', 'ic', 'unicode', 'quick')))
    # ignore(case) on sources that contain no upper- or lower-case *character* and still have case variants: title-case
    # digraphs (U+01C5 folds with U+01C4 / U+01C6), classes written as ranges of punctuation that contain letters
    D.append(Def('ic_uncased', variants=[
        Var('Dz', [T('\u01c5', ignore_case=True)]), Var('Lj', [T('\u01c8!', ignore_case=True)]),
        Var('Vis', [R('[!-~]+', ignore_case=True)]), Var('Sp', [T(' ')])], tags=('lit', 'ic', 'unicode', 'quick')))
    D.append(Def('ic_uncased_b', utf8=False, variants=[
        Var('Vis', [R(b'[!-~]+', ignore_case=True)]), Var('Hex', [R(b'\\x4B\\x2E', ignore_case=True)]), Var('Sp', [T(b' ')])],
        tags=('lit', 'ic', 'bytes', 'quick')))
    if thorough:
        rnd = random.Random(seed)
        alpha = list('ab.+*?()[]{}|^$\\-éßΣ😀 ') + ['\n']
        for k in range(8):
            lits = set()
            while len(lits) < 4:
                lits.add(''.join(rnd.choice(alpha) for _ in range(rnd.randint(1, 3))))
            lits = sorted(lits)
            D.append(Def(f'lit_rand{seed}_{k}', variants=[Var(f'T{j}', [T(l, ignore_case=(rnd.random() < 0.3))])
                                                          for j, l in enumerate(lits)], tags=('lit', 'rand')))
    return D


# ----------------------------------------------------------------------------- C11 subpattern family
def subpattern_family():
    D = []
    D.append(Def('sub_alt', subs=[('ab', 'a|b')], variants=[Var('X', [R('(?&ab)c')]), Var('Y', [R('c(?&ab)')]),
                                                            Var('Z', [R('d(?&ab)d')])], tags=('subpat', 'quick')))
    D.append(Def('sub_flags', subs=[('ci', '(?i)k'), ('m', 'm+')], variants=[Var('X', [R('(?&ci)x')]), Var('Y', [R('(?&m)y')]),
                                                                             Var('K', [T('K')])], tags=('subpat', 'quick')))
    D.append(Def('sub_nested', subs=[('d', '[0-9]'), ('dd', '(?&d)(?&d)'), ('num', '(?&dd)+\\.(?&d)')], variants=[
        Var('N', [R('(?&num)')]), Var('D', [R('(?&d)')]), Var('Dot', [T('.')])], tags=('subpat',)))
    D.append(Def('sub_bytes', subs=[('hi', b'\xC3\xA9|x')], variants=[Var('A', [R('a(?&hi)+')]), Var('B', [R('(?&hi)b')])],
                 tags=('subpat', 'unicode')))
    D.append(Def('sub_bytemode', utf8=False, subs=[('raw', b'[\x80-\xFF]'), ('u', 'é')], variants=[
        Var('A', [R(b'a(?&raw)')]), Var('U', [R('(?&u)+')]), Var('R', [R(b'(?&raw)(?&raw)')])], tags=('subpat', 'bytes')))
    D.append(Def('sub_skip', subs=[('ws', '[ \\t]')], skips=[R('(?&ws)+')], variants=[Var('A', [R('a(?&ws)?b')]),
                                                                                     Var('W', [R('[a-z]')])], tags=('subpat',)))
    D.append(Def('sub_unicode', subs=[('g', r'[α-ω]+'), ('any', '.'), ('nq', "[^q]")], variants=[
        Var('W', [R('(?&g)')]), Var('A', [R('<(?&any)>')]), Var('N', [R('!(?&nq)')])], tags=('subpat', 'unicode', 'quick')))
    D.append(Def('sub_mixed_mode', utf8=False, subs=[('g', r'[α-ω]'), ('any', '.'), ('raw', b'[\x80-\xFF]')], variants=[
        Var('A', [R(b'x(?&g)+')]), Var('B', [R(b'<(?&any)>')]), Var('C', [R('(?-u)\\xFE(?&any)')]), Var('R', [R(b'r(?&raw)')])],
        tags=('subpat', 'bytes', 'quick')))
    D.append(Def('sub_groups', subs=[('unit', '(?:k|M)(?:b|B)'), ('kw', '(?:let)|(?:var)'), ('g1', '(?:ab)')], variants=[
        Var('Size', [R('[0-9]+(?&unit)?')]), Var('Kw', [R('(?&kw)!')]), Var('G', [R('x(?&g1)+y')]), Var('Bang', [T('!')])],
        tags=('subpat', 'quick')))
    D.append(Def('sub_nonascii_text', subs=[('word', '[a-z]+'), ('d', '[0-9]')], variants=[
        Var('G', [R('\u00ab(?&word)\u00bb')]), Var('E', [R('\u20ac(?&d)+')]), Var('Close', [T('\u00bb')]), Var('N', [R('(?&d)+')]),
        Var('J', [R('\u65e5(?&d)x|\u672c(?&word)!')])], tags=('subpat', 'unicode', 'quick')))
    D.append(Def('sub_nonascii_skip', subs=[('sp', '[ \\t]')], skips=[R('\u00b7(?&sp)+\u00b7'), R('(?&sp)')], variants=[
        Var('W', [R('[a-z]+')]), Var('Dot', [T('\u00b7')])], tags=('subpat', 'unicode')))
    D.append(Def('sub_verbose', subs=[('digits', '(?x: [0-9] [0-9_]* )'), ('unit', 'px|em'), ('length', '(?&digits)(?&unit)'),
                                       ('v2', '(?x) a b # two letters\n c')], variants=[
        Var('Length', [R('(?&length)')]), Var('Number', [R('(?&digits)')]), Var('Fraction', [R('\\.(?&digits)')]),
        Var('V', [R('(?&v2)!')]), Var('Word', [R('[d-z]+')])], tags=('subpat', 'quick')))
    # flags of the *referencing* text apply to the included text (only the Unicode mode is the subpattern's own): a verbose
    # pattern / a verbose subpattern including sources with blanks and '#'; and (?i) / (?s) around a reference
    D.append(Def('sub_outer_flags', subs=[('assign', '[a-z]+ = [0-9]+'), ('sep', b' : '), ('pair', '(?x) (?&assign) (?&sep) (?&assign)'),
                                           ('kw', 'let|fn'), ('anyc', '.')], variants=[
        Var('Assigns', [R('(?x) (?&assign) ( , (?&assign) )* ;')]), Var('Pair', [R('<(?&pair)>')]), Var('Plain', [R('\\[(?&assign)\\]')]),
        Var('Kw', [R('(?i)(?&kw)!')]), Var('KwCs', [R('(?&kw)\\?')]), Var('Dots', [R('(?s)~(?&anyc)~')]), Var('DotNoS', [R('@(?&anyc)@')]),
        Var('Sp', [T(' ')])], tags=('subpat', 'quick')))
    # unescaped parentheses and brackets inside character classes of a subpattern source
    D.append(Def('sub_paren_class', subs=[('np', '[^()]+'), ('op', '[(\\[{]'), ('grp', '(x|(y))z')], variants=[
        Var('Call', [R('f\\((?&np)\\)')]), Var('Open', [R('(?&op)!')]), Var('G', [R('(?&grp)+')]), Var('Q', [T('?')])],
        tags=('subpat', 'quick')))
    D.append(Def('sub_same_a', subs=[('d', '[0-9]'), ('w', '(?&d)+x')], variants=[Var('N', [R('n(?&d)+')]), Var('W', [R('(?&w)')])],
                 tags=('subpat', 'quick')))
    D.append(Def('sub_same_b', subs=[('d', '[a-f]'), ('w', '(?&d)+x')], variants=[Var('N', [R('n(?&d)+')]), Var('W', [R('(?&w)')])],
                 tags=('subpat', 'quick')))
    D.append(Def('rej_sub_same_c', variants=[Var('N', [R('n(?&d)+')])], expect='reject', tags=('subpat',)))
    D.append(Def('rej_sub_undef2', subs=[('a', 'x')], variants=[Var('A', [R('(?&a)(?&b)')])], expect='reject', tags=('subpat',)))
    D.append(Def('rej_sub_forward', subs=[('a', '(?&b)x'), ('b', 'y')], variants=[Var('A', [R('(?&a)')])], expect='reject',
                 tags=('subpat',)))
    return D


# ----------------------------------------------------------------------------- byte-class shapes x state shapes
def _cmp_ops(bs):
    """number of compare operations ByteClass::impl_with_cmp / Comparisons::count_ops would need for the byte set (computed
    here only to *label* the shapes: <= 2 -> compare chain, > 2 -> look-up table; nothing is decided from it)"""
    bs = sorted(bs)
    ranges = []
    for b in bs:
        if ranges and ranges[-1][1] == b - 1:
            ranges[-1][1] = b
        else:
            ranges.append([b, b])
    cmps = []
    for lo, hi in ranges:
        if cmps and lo == cmps[-1][1] + 2:
            cmps[-1][1] = hi
            cmps[-1][2] += 1
        else:
            cmps.append([lo, hi, 0])
    return sum((1 if lo == hi else (lo > 0) + (hi < 255)) + ex for lo, hi, ex in cmps)


def _cls_text(bs):
    bs = sorted(bs)
    ranges = []
    for b in bs:
        if ranges and ranges[-1][1] == b - 1:
            ranges[-1][1] = b
        else:
            ranges.append([b, b])
    return '[' + ''.join(('\\x%02X' % lo) if lo == hi else ('\\x%02X-\\x%02X' % (lo, hi)) for lo, hi in ranges) + ']'


def class_shapes(byte_mode):
    """byte sets chosen by how the generator renders them: one compare, two compares, a range with isolated holes anchored
    at 0x00 / 0xFF, the full range minus one / two / three bytes (adjacent and not), two ranges, three isolated bytes"""
    full = set(range(256)) if byte_mode else set(range(128))
    top = 255 if byte_mode else 127
    S = lambda *xs: set(xs)                 # noqa: E731
    rng = lambda a, b: set(range(a, b + 1))  # noqa: E731
    b, c, d, f, x = 0x62, 0x63, 0x64, 0x66, 0x78
    shapes = [
        ('one', S(b)), ('pair_gap2', S(b, d)), ('pair_far', S(b, x)), ('pair_case', S(0x42, b)), ('pair_adj', S(b, c)),
        ('range', rng(b, f)), ('range_lo', rng(0, b)), ('range_hi', rng(0x71, top)), ('full', set(full)),
        ('lo_hole', rng(0, 0x20) - S(9)), ('hi_hole', rng(top - 0x20, top) - S(top - 1)), ('lo_hole2', rng(0, 0x20) - S(9, 0x0B)),
        ('not_one', full - S(b)), ('not_two', full - S(b, x)), ('not_gap2', full - S(b, d)), ('not_adj', full - S(b, c)),
        ('not_range', full - rng(b, f)), ('lo_plus_one', rng(0, 0x10) | S(0x7A)), ('one_top', S(b, top)), ('ends', S(0, top)),
        ('zero_two', S(0, 2)), ('top_two', S(top - 2, top)), ('not_zero', full - S(0)), ('not_top', full - S(top)),
        ('not_ends', full - S(0, top)), ('not_one_lo', full - S(1)), ('not_one_hi', full - S(top - 1)),
        ('not_zero_two', full - S(0, 2)), ('not_top_two', full - S(top - 2, top)), ('two_ranges', rng(0x61, c) | rng(x, 0x7A)),
        ('three', S(b, d, f)), ('not_three', full - S(b, d, f)), ('not_case', full - S(0x58, x)),
    ]
    return shapes


def class_family():
    """Every class shape in every kind of state the generator distinguishes: a state with one edge (`pC`), with two edges
    (`pC` next to `p#x`), a self-looping state entered through the class (`pC+`), and a loop with an exit (`pC*;`); and as
    the only edge(s) of the root.  The prefixes are distinct upper-case letters, so the root is a jump table.
    Byte mode over all 256 bytes, str mode over ASCII."""
    D = []
    for byte_mode in (True, False):
        shapes = class_shapes(byte_mode)
        G = 6
        for gi in range(0, len(shapes), G):
            chunk = shapes[gi:gi + G]
            variants = []
            letters = iter('ABCDEFGHIJKLMNOPQRSTUVWXYZ')
            for name, bs in chunk:
                cls = _cls_text(bs)
                mk = (lambda t: R(t.encode())) if byte_mode else R
                nm = ''.join(w.capitalize() for w in name.split('_'))
                p1, p2, p3, p4 = next(letters), next(letters), next(letters), next(letters)
                variants.append(Var(nm + 'One', [mk(p1 + cls)]))
                variants.append(Var(nm + 'Two', [mk(p2 + cls + '!')]))
                variants.append(Var(nm + 'TwoAlt', [mk(p2 + '#x')]))
                variants.append(Var(nm + 'Loop', [_greedy(mk, p3 + cls + '+')]))
                variants.append(Var(nm + 'LoopExit', [_greedy(mk, p4 + cls + '*;;')]))
            quick = gi in ((0, 12, 24) if byte_mode else (12,))
            tags = ('cls', 'loop') + (('bytes',) if byte_mode else ()) + (('quick',) if quick else ())
            D.append(Def(f'cls_{"b" if byte_mode else "s"}{gi // G}', utf8=not byte_mode, variants=variants, tags=tags,
                         note='shapes: ' + ', '.join(f'{n}({_cmp_ops(bs)} ops)' for n, bs in chunk)))
        # the class as the only edge of the root / next to one other edge (the root is then a compare chain, not a table)
        for name in ('not_two', 'not_gap2', 'lo_hole', 'hi_hole', 'pair_case', 'not_ends', 'zero_two', 'full', 'not_one', 'two_ranges'):
            bs = dict(shapes)[name]
            cls = _cls_text(bs)
            mk = (lambda t: R(t.encode())) if byte_mode else R
            vs = [Var('C', [mk(cls + '!')])]
            other = next(o for o in (0x23, 0x62, 0x09, 0x00) if o not in bs) if len(bs) < (256 if byte_mode else 128) else None
            if other is not None:
                vs.append(Var('O', [mk('\\x%02X%s' % (other, 'k'))]))
            D.append(Def(f'cls_root_{"b" if byte_mode else "s"}_{name}', utf8=not byte_mode, variants=vs,
                         tags=('cls',) + (('bytes',) if byte_mode else ()) + (('quick',) if name in ('not_two', 'lo_hole') and byte_mode else ())))
    return D


def _greedy(mk, text):
    p = mk(text)
    p.allow_greedy = True
    return p


def all_defs(seed=0, thorough=False):     # noqa: F811
    return core() + reject_core() + cb_defs() + literal_family(seed, thorough) + subpattern_family() + class_family()


def all_defs_extended():    # noqa: F811
    return all_defs(0, True)
