"""Builtins: functions of `core` that are modelled instead of executed from their MIR.

The list is part of every claim (printed in the evidence as `stubs`).  Everything else that the
generated lexers and the logos runtime call (Option/Result combinators, checked_add, Ord::max, Try,
closures, ...) is executed from the MIR that rustc exported.

STOP is handed to tools/mirdump so that these functions' bodies are not exported at all: if a builtin
is missing here the executor fails closed ("no MIR body and no builtin").
"""
import re

import z3

from .exec import (Agg, ArrSlice, BF, Cell, Ref, ConstBytes, EngineError, Opaque, Panic, SrcPtr, SrcSlice, U, Violation, as_bv, bvv, s_and,
                   s_not, s_or, simp)

STOP = [
    'core::fmt', 'std::fmt', 'core::panicking', 'std::panicking', 'core::panic',
    'core::str::<impl str>::len', 'core::str::<impl str>::as_ptr', 'core::str::<impl str>::as_bytes',
    'core::str::<impl str>::is_char_boundary', 'core::str::<impl str>::get', 'core::str::<impl str>::get_unchecked',
    'core::str::<impl str>::is_empty',
    'core::slice::<impl [u8]>::len', 'core::slice::<impl [u8]>::as_ptr', 'core::slice::<impl [u8]>::get',
    'core::slice::<impl [u8]>::get_unchecked', 'core::slice::<impl [u8]>::first', 'core::slice::<impl [u8]>::is_empty',
    'std::ptr::const_ptr::<impl *const u8>::add',
    'std::array::<impl std::convert::TryFrom<&[u8]> for &[u8;',
    'std::option::unwrap_failed', 'std::option::expect_failed', 'std::result::unwrap_failed',
    'core::str::traits::', 'core::slice::index::',
    '<str as std::cmp::PartialEq>::eq', '<[u8] as std::cmp::PartialEq>::eq',
    'core::slice::cmp::', 'core::str::<impl str>::as_bytes',
    'core::str::<impl str>::starts_with', 'core::str::<impl str>::ends_with',
]

_TABLE = []


def builtin(pattern):
    rx = re.compile(pattern)

    def deco(fn):
        _TABLE.append((rx, fn))
        return fn

    return deco


def lookup(f):
    name = f['name']
    for rx, fn in _TABLE:
        if rx.fullmatch(name):
            return fn
    if f.get('intrinsic'):
        fn = _INTRINSICS.get(f['intrinsic'])
        if fn is None:
            raise EngineError('unsupported intrinsic ' + f['intrinsic'])
        return fn
    return None


def option(ex, f, inner):
    """build Option<T> of the callee's return type: inner None -> None variant"""
    rty = ret_ty(ex, f)
    return Agg(rty, 0, []) if inner is None else Agg(rty, 1, [inner])


def ret_ty(ex, f):
    # return type = type of local 0 is not available for body-less fns; take it from the fn type name
    # (only used to tag Agg values; projections do not depend on it)
    return None


def slice_len(s):
    if isinstance(s, SrcSlice):
        return s.len
    if isinstance(s, ConstBytes):
        return len(s.data)
    raise EngineError('len of ' + repr(s))


@builtin(r'core::(str|slice)::<impl (str|\[u8\])>::len')
def bi_len(ex, f, a):
    return slice_len(a[0])


@builtin(r'core::(str|slice)::<impl (str|\[u8\])>::is_empty')
def bi_is_empty(ex, f, a):
    n = slice_len(a[0])
    return (n == 0) if isinstance(n, int) else simp(n == bvv(0, U))


@builtin(r'core::(str|slice)::<impl (str|\[u8\])>::as_ptr')
def bi_as_ptr(ex, f, a):
    s = a[0]
    if isinstance(s, SrcSlice):
        return SrcPtr(s.off, ex.add_off(s.off, s.len))
    raise EngineError('as_ptr of ' + repr(s))


@builtin(r'core::str::<impl str>::as_bytes')
def bi_as_bytes(ex, f, a):
    return a[0]


@builtin(r'std::ptr::const_ptr::<impl \*const u8>::add')
def bi_ptr_add(ex, f, a):
    p, n = a
    if not isinstance(p, SrcPtr):
        raise EngineError('ptr::add on ' + repr(p))
    # safety precondition of ptr::add: the result stays inside (or one past) the allocation
    new = ex.add_off(p.off, n)
    ok = ex.in_bounds(p.off, 0, p.limit)
    nb = ex.in_bounds(new, 0, p.limit)
    if isinstance(n, int) and isinstance(p.off, int):
        wrap = p.off + n > (1 << U) - 1
    else:
        wrap = simp(z3.ULT(as_bv(new, U), as_bv(p.off, U)))
    bad = s_or(s_not(ok), s_not(nb), wrap)
    if ex.check(bad):
        raise Violation('oob', f'ptr::add leaves the source allocation: {p.off} + {n} (limit {p.limit})')
    return SrcPtr(new, p.limit)


def char_boundary(ex, s, idx):
    """str::is_char_boundary(idx) on the source slice s (semantics of core)"""
    ln = s.len
    if isinstance(idx, int) and idx == 0:
        return True
    i = as_bv(idx, U)
    lnb = as_bv(ln, U)
    pos = ex.add_off(s.off, idx)
    inb = z3.ULT(i, lnb)
    if isinstance(pos, int):
        if pos < ex.N:
            b = ex.bytes[pos]
            isb = z3.Or(z3.ULT(b, 0x80), z3.UGE(b, 0xC0))
            inside = z3.And(inb, isb)
        else:
            inside = z3.BoolVal(False)    # pos >= N >= len: never inside
    else:
        b = ex.byte_at(pos)
        isb = z3.Or(z3.ULT(b, 0x80), z3.UGE(b, 0xC0))
        inside = z3.And(inb, isb)
    return simp(z3.Or(i == bvv(0, U), i == lnb, inside))


@builtin(r'core::str::<impl str>::is_char_boundary')
def bi_is_char_boundary(ex, f, a):
    s, idx = a
    if not isinstance(s, SrcSlice):
        raise EngineError('is_char_boundary on ' + repr(s))
    return char_boundary(ex, s, idx)


def range_parts(r):
    if not isinstance(r, Agg) or len(r.fields) != 2:
        raise EngineError('expected Range, got ' + repr(r))
    return r.fields[0], r.fields[1]


def in_range_cond(ex, s, st, en, is_str):
    a, b, ln = as_bv(st, U), as_bv(en, U), as_bv(s.len, U)
    c = z3.And(z3.ULE(a, b), z3.ULE(b, ln))
    c = simp(c)
    if is_str:
        c = s_and(c, char_boundary(ex, s, st), char_boundary(ex, s, en))
    return c


def subslice(ex, s, st, en):
    return SrcSlice(ex.add_off(s.off, st), simp(as_bv(en, U) - as_bv(st, U)) if not (
        isinstance(st, int) and isinstance(en, int)) else (en - st), s.limit)


@builtin(r'core::str::<impl str>::get::<std::ops::Range<usize>>')
def bi_str_get(ex, f, a):
    s, r = a
    st, en = range_parts(r)
    c = in_range_cond(ex, s, st, en, True)
    i = ex.decide([c, s_not(c)], exhaustive=True)
    return option(ex, f, subslice(ex, s, st, en) if i == 0 else None)


@builtin(r'core::slice::<impl \[u8\]>::get::<std::ops::Range<usize>>')
def bi_slice_get(ex, f, a):
    s, r = a
    st, en = range_parts(r)
    c = in_range_cond(ex, s, st, en, False)
    i = ex.decide([c, s_not(c)], exhaustive=True)
    return option(ex, f, subslice(ex, s, st, en) if i == 0 else None)


@builtin(r'core::str::<impl str>::get_unchecked::<std::ops::Range<usize>>')
def bi_str_get_unchecked(ex, f, a):
    s, r = a
    st, en = range_parts(r)
    c = in_range_cond(ex, s, st, en, True)
    ex.events.append(('get_unchecked', st, en))
    if ex.check(s_not(c)):
        raise Violation('get_unchecked', f'str::get_unchecked({st}..{en}) precondition can fail (len {s.len})')
    return subslice(ex, s, st, en)


@builtin(r'core::slice::<impl \[u8\]>::get_unchecked::<std::ops::Range<usize>>')
def bi_slice_get_unchecked(ex, f, a):
    s, r = a
    st, en = range_parts(r)
    c = in_range_cond(ex, s, st, en, False)
    ex.events.append(('get_unchecked', st, en))
    if ex.check(s_not(c)):
        raise Violation('get_unchecked', f'<[u8]>::get_unchecked({st}..{en}) precondition can fail (len {s.len})')
    return subslice(ex, s, st, en)


@builtin(r'core::slice::<impl \[u8\]>::get::<usize>')
def bi_slice_get_idx(ex, f, a):
    s, i = a
    c = simp(z3.ULT(as_bv(i, U), as_bv(s.len, U)))
    k = ex.decide([c, s_not(c)], exhaustive=True)
    return option(ex, f, SrcPtr(ex.add_off(s.off, i), ex.add_off(s.off, s.len)) if k == 0 else None)


@builtin(r'core::slice::<impl \[u8\]>::get_unchecked::<usize>')
def bi_slice_get_unchecked_idx(ex, f, a):
    s, i = a
    c = simp(z3.ULT(as_bv(i, U), as_bv(s.len, U)))
    if ex.check(s_not(c)):
        raise Violation('get_unchecked', f'<[u8]>::get_unchecked({i}) out of bounds (len {s.len})')
    return SrcPtr(ex.add_off(s.off, i), ex.add_off(s.off, s.len))


def _arr_elem(ex, s, i):
    """element i (in range, possibly symbolic) of an array-backed slice, as a shared reference"""
    if isinstance(i, int):
        return Ref(s.ref.cell, s.ref.path + (i,))
    arr = ex.read_lv(('cell', s.ref.cell, s.ref.path))
    return Ref(Cell(ex.sym_select(arr.fields, i)), ())


@builtin(r'<usize as (core|std)::slice::SliceIndex<\[.*\]>>::(get|index|get_unchecked)')
def bi_sliceindex_usize(ex, f, a):
    """usize indexing of slices that are not the lexed source: tables unsized from arrays (shared references only)"""
    i, s = a
    which = f['name'].rsplit('::', 1)[1]
    if isinstance(s, SrcSlice):
        n = s.len
    elif isinstance(s, ArrSlice):
        n = s.n
    else:
        raise EngineError('SliceIndex on ' + repr(s))
    if isinstance(i, int) and isinstance(n, int):
        c = i < n
    elif isinstance(i, BF) and isinstance(n, int):
        c = BF(i.k, tuple(t < n for t in i.tab), 0)
    else:
        c = simp(z3.ULT(as_bv(i, U), as_bv(n, U)))

    def elem():
        if isinstance(s, SrcSlice):
            return SrcPtr(ex.add_off(s.off, i), ex.add_off(s.off, s.len))
        return _arr_elem(ex, s, i)
    if which == 'get':
        k = ex.decide([c, s_not(c)], exhaustive=True)
        return option(ex, f, elem() if k == 0 else None)
    if which == 'get_unchecked':
        if ex.check(s_not(c)):
            raise Violation('get_unchecked', f'slice.get_unchecked({i}) out of bounds (len {n})')
        return elem()
    k = ex.decide([c, s_not(c)], exhaustive=True)
    if k == 1:
        raise Panic(f'index out of bounds: the len is {n} but the index is {i}')
    return elem()


def _range_like(ex, f, s, r, is_str, checked):
    """get / get_unchecked with RangeFrom, RangeTo, RangeFull, RangeInclusive arguments"""
    name = f['name']
    ln = s.len
    if 'RangeFrom' in name:
        st, en = r.fields[0], ln
    elif 'RangeToInclusive' in name:
        st, en = 0, ex.add_off(r.fields[0], 1)
    elif 'RangeTo' in name:
        st, en = 0, r.fields[0]
    elif 'RangeFull' in name:
        st, en = 0, ln
    else:
        raise EngineError('unsupported slice index type in ' + name)
    c = in_range_cond(ex, s, st, en, is_str)
    if checked:
        i = ex.decide([c, s_not(c)], exhaustive=True)
        return option(ex, f, subslice(ex, s, st, en) if i == 0 else None)
    if ex.check(s_not(c)):
        raise Violation('get_unchecked', f'get_unchecked({st}..{en}) precondition can fail (len {ln})')
    return subslice(ex, s, st, en)


@builtin(r'core::(str|slice)::<impl (str|\[u8\])>::get::<std::ops::Range(From|To|ToInclusive|Full)(<usize>)?>')
def bi_get_rangelike(ex, f, a):
    return _range_like(ex, f, a[0], a[1], 'impl str' in f['name'], True)


@builtin(r'core::(str|slice)::<impl (str|\[u8\])>::get_unchecked::<std::ops::Range(From|To|ToInclusive|Full)(<usize>)?>')
def bi_get_unchecked_rangelike(ex, f, a):
    return _range_like(ex, f, a[0], a[1], 'impl str' in f['name'], False)


@builtin(r'core::slice::<impl \[u8\]>::first')
def bi_first(ex, f, a):
    s = a[0]
    ln = s.len
    c = (ln != 0) if isinstance(ln, int) else simp(ln != bvv(0, U))
    i = ex.decide([c, s_not(c)], exhaustive=True)
    return option(ex, f, SrcPtr(s.off, ex.add_off(s.off, s.len)) if i == 0 else None)


@builtin(r'std::array::<impl std::convert::TryFrom<&\[u8\]> for &\[u8; (\d+)\]>::try_from')
def bi_try_from(ex, f, a):
    n = int(re.search(r'&\[u8; (\d+)\]', f['name']).group(1))
    s = a[0]
    ln = s.len
    c = (ln == n) if isinstance(ln, int) else simp(ln == bvv(n, U))
    i = ex.decide([c, s_not(c)], exhaustive=True)
    if i == 0:
        return Agg(None, 0, [SrcPtr(s.off, ex.add_off(s.off, s.len))])
    return Agg(None, 1, [Agg(None, None, [Agg(None, None, [])])])


@builtin(r'(core|std)::(panicking|option|result)::(panic\w*|unwrap_failed|expect_failed|assert_failed\w*)(::<.*>)?')
def bi_panic(ex, f, a):
    msg = f['name']
    for x in a:
        if isinstance(x, ConstBytes):
            msg += ': ' + bytes(b for b in x.data if b is not None).decode('utf8', 'replace')
        elif isinstance(x, Opaque) and x.what.startswith('fmt:'):
            msg += ': ' + x.what[4:]
    raise Panic(msg)


@builtin(r'(core|std)::fmt::Arguments::<\'_>::(from_str|new)(::<.*>)?')
def bi_fmt_args(ex, f, a):
    for x in a:
        if isinstance(x, ConstBytes):
            return Opaque('fmt:' + bytes(b for b in x.data if b is not None).decode('utf8', 'replace'))
    return Opaque('fmt:')


@builtin(r'(core|std)::fmt::rt::Argument::<\'_>::new_\w+(::<.*>)?')
def bi_fmt_arg(ex, f, a):
    return Opaque('fmtarg')


def bytes_eq(ex, x, y):
    """content equality of two byte strings (source slices or constants)"""
    def length(v):
        return v.len if isinstance(v, SrcSlice) else len(v.data)

    def byte(v, i):
        if isinstance(v, SrcSlice):
            return ex.byte_at(ex.add_off(v.off, i))
        return bvv(v.data[i], 8)

    lx, ly = length(x), length(y)
    # at least one side has a concrete length in practice (constant literal)
    if not isinstance(lx, int) and not isinstance(ly, int):
        lx = ex.concretize(lx, 'slice length')
    if isinstance(lx, int) and not isinstance(ly, int):
        x, y, lx, ly = y, x, ly, lx
    n = ly
    leq = (lx == n) if isinstance(lx, int) else simp(lx == bvv(n, U))
    conds = [leq]
    for i in range(n):
        if isinstance(x, SrcSlice):
            pos = ex.add_off(x.off, i)
            if isinstance(pos, int) and pos >= ex.N:
                conds.append(False)
                break
        conds.append(simp(byte(x, i) == byte(y, i)))
    return s_and(*conds)


@builtin(r'<(str|\[u8\]) as std::cmp::PartialEq>::eq|core::str::traits::<impl std::cmp::PartialEq for str>::eq|'
         r'core::slice::cmp::<impl std::cmp::PartialEq<\[u8\]> for \[u8\]>::eq')
def bi_bytes_eq(ex, f, a):
    return bytes_eq(ex, a[0], a[1])


def _intr_cold_path(ex, f, a):
    return Agg(None, None, [])


_WIDTH = {'u8': 8, 'i8': 8, 'u16': 16, 'i16': 16, 'u32': 32, 'i32': 32, 'u64': 64, 'i64': 64, 'usize': 64, 'isize': 64,
          'u128': 128, 'i128': 128}


def _int_ty(f):
    m = re.search(r'::<([iu](?:8|16|32|64|128|size))>$', f['name'])
    if not m:
        raise EngineError('intrinsic without integer type argument: ' + f['name'])
    t = m.group(1)
    return _WIDTH[t], t.startswith('i')


def _arith(name):
    def fn(ex, f, a):
        w, signed = _int_ty(f)
        x, y = a[0], a[1]
        m = (1 << w) - 1
        if signed:
            raise EngineError('signed ' + name)
        if isinstance(x, int) and isinstance(y, int):
            if name == 'saturating_sub':
                return max(0, x - y)
            if name == 'saturating_add':
                return min(m, x + y)
            if name in ('wrapping_add', 'unchecked_add'):
                return (x + y) & m
            if name in ('wrapping_sub', 'unchecked_sub'):
                return (x - y) & m
            if name in ('wrapping_mul', 'unchecked_mul'):
                return (x * y) & m
        bx, by = as_bv(x, w), as_bv(y, w)
        if name == 'saturating_sub':
            return simp(z3.If(z3.ULT(bx, by), bvv(0, w), bx - by))
        if name == 'saturating_add':
            r = bx + by
            return simp(z3.If(z3.ULT(r, bx), bvv(m, w), r))
        if name in ('wrapping_add', 'unchecked_add'):
            return simp(bx + by)
        if name in ('wrapping_sub', 'unchecked_sub'):
            return simp(bx - by)
        if name in ('wrapping_mul', 'unchecked_mul'):
            return simp(bx * by)
        raise EngineError('intrinsic ' + name)
    fn.__name__ = 'intr_' + name
    return fn


def _intr_identity(ex, f, a):
    return a[0]


def _intr_unit(ex, f, a):
    return Agg(None, None, [])


def _intr_ctpop(ex, f, a):
    w, _ = _int_ty(f)
    x = a[0]
    if isinstance(x, int):
        return bin(x).count('1')
    bx = as_bv(x, w)
    t = bvv(0, 32)
    for i in range(w):
        t = t + z3.ZeroExt(31, z3.Extract(i, i, bx))
    return simp(t)


def _intr_raw_eq(ex, f, a):
    """core::intrinsics::raw_eq::<[u8; N]>(&a, &b): what `==` on byte arrays compiles to"""
    m = re.search(r'::<\[u8; (\d+)(?:_usize)?\]>$', f['name'])
    if not m:
        raise EngineError('raw_eq on a type other than [u8; N]: ' + f['name'])
    n = int(m.group(1))

    def byte(v, i):
        if isinstance(v, SrcPtr):
            return ex.load_src(ex.add_off(v.off, i), v.limit)     # bounds obligation and read log per byte
        if isinstance(v, ConstBytes):
            return v.data[i]
        if isinstance(v, Ref):
            arr = v.cell.val
            for k in v.path:
                arr = arr.fields[k]
            if not isinstance(arr, Agg) or len(arr.fields) != n:
                raise EngineError('raw_eq: referent is not an array of %d bytes' % n)
            return arr.fields[i]
        raise EngineError(f'raw_eq operand {v!r}')

    conds = []
    for i in range(n):
        x, y = byte(a[0], i), byte(a[1], i)
        if isinstance(x, int) and isinstance(y, int):
            if x != y:
                return False
            continue
        conds.append(simp(as_bv(x, 8) == as_bv(y, 8)))
    return s_and(*conds) if conds else True


_INTRINSICS = {
    'cold_path': _intr_cold_path,
    'likely': _intr_identity, 'unlikely': _intr_identity, 'black_box': _intr_identity,
    'assert_inhabited': _intr_unit, 'assert_zero_valid': _intr_unit, 'assert_mem_uninitialized_valid': _intr_unit,
    'ctpop': _intr_ctpop, 'raw_eq': _intr_raw_eq,
}
for _n in ('saturating_sub', 'saturating_add', 'wrapping_add', 'wrapping_sub', 'wrapping_mul', 'unchecked_add', 'unchecked_sub',
           'unchecked_mul'):
    _INTRINSICS[_n] = _arith(_n)
