"""Runtime-level obligations on the logos runtime's own MIR: Lexer::bump (C15), Source::read (C05b)."""
import json
import os
import time

import z3

from . import build, corpus, corpus_defs, lexcheck, pipeline, report
from .exec import (Agg, Cell, EngineError, Exec, Panic, Ref, SrcPtr, SrcSlice, U, Violation, as_bv, bvv, s_and, s_not,
                   s_or, simp)

RT_EXTRA = '''
pub mod rt {
    use logos::Source;
    pub fn read_str_u8(s: &'static str, off: usize) -> Option<u8> { s.read(off) }
    pub fn read_str_a2(s: &'static str, off: usize) -> Option<&'static [u8; 2]> { s.read(off) }
    pub fn read_str_a4(s: &'static str, off: usize) -> Option<&'static [u8; 4]> { s.read(off) }
    pub fn read_str_a8(s: &'static str, off: usize) -> Option<&'static [u8; 8]> { s.read(off) }
    pub fn read_bytes_u8(s: &'static [u8], off: usize) -> Option<u8> { s.read(off) }
    pub fn read_bytes_a2(s: &'static [u8], off: usize) -> Option<&'static [u8; 2]> { s.read(off) }
    pub fn read_bytes_a4(s: &'static [u8], off: usize) -> Option<&'static [u8; 4]> { s.read(off) }
    pub fn read_bytes_a8(s: &'static [u8], off: usize) -> Option<&'static [u8; 8]> { s.read(off) }
    pub fn is_boundary_str(s: &'static str, i: usize) -> bool { s.is_boundary(i) }
    pub fn is_boundary_bytes(s: &'static [u8], i: usize) -> bool { s.is_boundary(i) }
    pub fn find_boundary_str(s: &'static str, i: usize) -> usize { s.find_boundary(i) }
    pub fn slice_str(s: &'static str, a: usize, b: usize) -> Option<&'static str> { s.slice(a..b) }
    pub fn slice_bytes(s: &'static [u8], a: usize, b: usize) -> Option<&'static [u8]> { s.slice(a..b) }
}
// sources served by the blanket `impl<T: Deref> Source for T` (what String / Box<str> / Rc<str> / Vec<u8> users get):
// a newtype that derefs to the symbolic source, and a hand-written Logos impl over it
pub mod wrap_s {
    use logos::{Lexer, Logos};
    pub struct W(pub &'static str);
    impl core::ops::Deref for W { type Target = str; fn deref(&self) -> &str { self.0 } }
    #[derive(Debug, PartialEq, Clone)]
    pub struct Tok;
    impl<'s> Logos<'s> for Tok {
        type Extras = (); type Source = W; type Error = ();
        fn lex(_lex: &mut Lexer<'s, Self>) -> Option<Result<Self, ()>> { None }
    }
    pub fn mk(s: &'static str) -> W { W(s) }
    pub fn h_new(w: &'static W) -> Lexer<'static, Tok> { Lexer::new(w) }
    pub fn h_bump(lex: &mut Lexer<'static, Tok>, n: usize) { lex.bump(n) }
    pub fn h_slice(lex: &Lexer<'static, Tok>) -> &'static str { lex.slice() }
    pub fn h_remainder(lex: &Lexer<'static, Tok>) -> &'static str { lex.remainder() }
}
pub mod wrap_b {
    use logos::{Lexer, Logos};
    pub struct W(pub &'static [u8]);
    impl core::ops::Deref for W { type Target = [u8]; fn deref(&self) -> &[u8] { self.0 } }
    #[derive(Debug, PartialEq, Clone)]
    pub struct Tok;
    impl<'s> Logos<'s> for Tok {
        type Extras = (); type Source = W; type Error = ();
        fn lex(_lex: &mut Lexer<'s, Self>) -> Option<Result<Self, ()>> { None }
    }
    pub fn mk(s: &'static [u8]) -> W { W(s) }
    pub fn h_new(w: &'static W) -> Lexer<'static, Tok> { Lexer::new(w) }
    pub fn h_bump(lex: &mut Lexer<'static, Tok>, n: usize) { lex.bump(n) }
    pub fn h_slice(lex: &Lexer<'static, Tok>) -> &'static [u8] { lex.slice() }
    pub fn h_remainder(lex: &Lexer<'static, Tok>) -> &'static [u8] { lex.remainder() }
}
'''


def rt_defs():
    ds = {d.id: d for d in corpus_defs.core()}
    return [ds['kw_ident'], ds['bytes_basic']]


def set_lexer_state(ex, lexcell, ts, te):
    v = lexcell.val
    kd = ex.p.kind(v.ty)
    names = {f['name']: i for i, f in enumerate(kd['variants'][0]['fields'])}
    v.fields[names['token_start']] = ts
    v.fields[names['token_end']] = te
    return names


def boundary_sym(ex, idx, is_str):
    """is_boundary(idx) for a symbolic index (reference semantics, not the code's)"""
    i = as_bv(idx, U)
    inl = z3.ULE(i, ex.len)
    if not is_str:
        return simp(inl)
    b = ex.byte_at(i) if not isinstance(idx, int) else (ex.bytes[idx] if idx < ex.N else bvv(0, 8))
    notcont = z3.Or(z3.ULT(b, 0x80), z3.UGE(b, 0xC0))
    return simp(z3.And(inl, z3.Or(i == bvv(0, U), i == ex.len, notcont)))


# ----------------------------------------------------------------------------- C15
def task_bump(pl):
    prog = pipeline.load_program(pl['mir'])
    d = pl['d']
    N = pl['N']
    is_str = d.utf8
    ex = Exec(prog, N, debug_assertions=not pl['release'])
    if is_str:
        ex.base.append(lexcheck.as_b(lexcheck.valid_utf8(ex)))
    lexcheck.install_hooks(ex)
    ts = z3.BitVec('token_start', U)
    te = z3.BitVec('token_end', U)
    n = z3.BitVec('n', U)
    # representation invariant of a lexer reached through the public API
    ex.base += [z3.ULE(ts, te), z3.ULE(te, ex.len)]
    if is_str:
        ex.base += [lexcheck.as_b(boundary_sym(ex, ts, True)), lexcheck.as_b(boundary_sym(ex, te, True))]
    mod = f'corpus::{d.id}::'
    wrap = pl.get('wrap', False)
    if wrap:
        mod = 'corpus::wrap_s::' if is_str else 'corpus::wrap_b::'
    failures = []
    stats = {'leaves': 0, 'return': 0, 'panic': 0}
    samples = []

    def fail(what, cond=None, model=None):
        if len(failures) < 12:
            failures.append({'what': what, 'model': model or ex.model_for(cond if cond is not None else True)})

    def body(ex):
        if wrap:
            w = Cell(ex.call_root(mod + 'mk', [ex.source()]))
            lex = Cell(ex.call_root(mod + 'h_new', [Ref(w, ())]))
        else:
            lex = Cell(ex.call_root(mod + 'h_new', [ex.source()]))
        names = set_lexer_state(ex, lex, ts, te)
        lref = Ref(lex, ())
        try:
            ex.call_root(mod + 'h_bump', [lref, n])
            outcome = 'return'
        except Panic:
            outcome = 'panic'
        st2 = lex.val.fields[names['token_start']]
        en2 = lex.val.fields[names['token_end']]
        s2, e2 = as_bv(st2, U), as_bv(en2, U)
        # mathematical new end: te + n without wrap
        nowrap = z3.UGE(te + n, te)
        valid = simp(z3.And(nowrap, lexcheck.as_b(boundary_sym(ex, te + n, is_str))))
        if outcome == 'return':
            bad = s_not(valid)
            if ex.check(bad):
                fail('bump returned although the new end is outside the source, inside a code point or wrapped', bad)
            bad2 = simp(z3.Not(e2 == te + n))
            if ex.check(bad2):
                fail('bump returned but token_end != old end + n', bad2)
        else:
            if ex.check(valid):
                fail('bump panicked although the new end is a valid position', valid)
        inv = simp(z3.And(z3.ULE(s2, e2), z3.ULE(e2, ex.len)))
        inv_broken = ex.check(s_not(inv))
        # what can safe code obtain afterwards?  (the property speaks about ranges: inside the source, start <= end)
        for acc in ('h_slice', 'h_remainder'):
            try:
                r = ex.call_root(mod + acc, [lref])
                if isinstance(r, SrcSlice):
                    inside = ex.in_bounds(r.off, 0, ex.len)
                    endok = simp(z3.And(z3.ULE(as_bv(r.len, U), ex.len),
                                        z3.ULE(as_bv(r.off, U) + as_bv(r.len, U), ex.len)))
                    if ex.check(s_not(s_and(inside, endok))):
                        fail(f'after bump ({outcome}) {acc[2:]}() returns a slice outside the source', s_not(s_and(inside, endok)))
            except Panic:
                pass        # a panic is an allowed outcome (forbid_unsafe, debug assertions)
            except Violation as v:
                if v.kind != 'get_unchecked':
                    fail(f'after bump ({outcome}) {acc[2:]}(): {v.msg}', model=ex.model_for(True))
                elif ex.check(s_not(inv)):
                    fail(f'after bump ({outcome}) {acc[2:]}() slices unchecked with out-of-range bounds '
                         f'(start > end or end > len)', s_not(inv))
                else:
                    stats['boundary_only_ub'] = stats.get('boundary_only_ub', 0) + 1
        return (outcome, inv_broken)

    def on_leaf(ex, leaf):
        stats['leaves'] += 1
        if leaf[0] == 'ok':
            stats[leaf[1][0]] += 1
            if len(samples) < 6:
                m = ex.model_for(True)
                samples.append({'outcome': leaf[1][0], 'invariant_broken_after': leaf[1][1], 'len': m['len'],
                                'vars': m.get('vars'), 'input': bytes(m['bytes']).hex()})
        elif leaf[0] == 'violation':
            fail('bump: ' + leaf[1][1], model=leaf[1][2])
        else:
            fail('unexpected panic outside bump: ' + str(leaf[1]))

    ex.explore(body, on_leaf)
    return dict(id=d.id, cfg=pl['cfg'], profile='release' if pl['release'] else 'dev', failures=failures, stats=stats, wrap=wrap,
                engine=dict(ex.stats), fns=sorted(ex.fn_seen), builtins=sorted(ex.builtins_used), samples=samples, N=N)


BUMP_REPLAY_MAIN = '''
use logos::{Lexer, Logos};
use std::panic::{catch_unwind, AssertUnwindSafe};
#[derive(Debug, PartialEq, Clone)]
pub struct StepS;
impl<'s> Logos<'s> for StepS {
    type Extras = usize; type Source = str; type Error = ();
    fn lex(lex: &mut Lexer<'s, Self>) -> Option<Result<Self, ()>> { let n = lex.extras; lex.bump(n); Some(Ok(StepS)) }
}
#[derive(Debug, PartialEq, Clone)]
pub struct StepB;
impl<'s> Logos<'s> for StepB {
    type Extras = usize; type Source = [u8]; type Error = ();
    fn lex(lex: &mut Lexer<'s, Self>) -> Option<Result<Self, ()>> { let n = lex.extras; lex.bump(n); Some(Ok(StepB)) }
}
pub struct WS(pub &'static str);
impl core::ops::Deref for WS { type Target = str; fn deref(&self) -> &str { self.0 } }
pub struct WB(pub &'static [u8]);
impl core::ops::Deref for WB { type Target = [u8]; fn deref(&self) -> &[u8] { self.0 } }
#[derive(Debug, PartialEq, Clone)]
pub struct StepWS;
impl<'s> Logos<'s> for StepWS {
    type Extras = usize; type Source = WS; type Error = ();
    fn lex(lex: &mut Lexer<'s, Self>) -> Option<Result<Self, ()>> { let n = lex.extras; lex.bump(n); Some(Ok(StepWS)) }
}
#[derive(Debug, PartialEq, Clone)]
pub struct StepWB;
impl<'s> Logos<'s> for StepWB {
    type Extras = usize; type Source = WB; type Error = ();
    fn lex(lex: &mut Lexer<'s, Self>) -> Option<Result<Self, ()>> { let n = lex.extras; lex.bump(n); Some(Ok(StepWB)) }
}
fn report(kind: &str, base: usize, len: usize, p: usize, l: usize) {
    let inside = p >= base && p <= base + len && l <= len && p - base + l <= len;
    println!("{kind} offset={} len={} inside_source={}", p.wrapping_sub(base) as isize, l, inside);
}
macro_rules! drive { ($T:ty, $src:expr, $ts:expr, $te:expr, $n:expr, $asptr:expr) => {{
    let src = $src;
    let base = $asptr(src) as usize; let len = src.len();
    let mut lex: Lexer<$T> = Lexer::new(src);
    lex.extras = $ts; lex.next();
    lex.extras = $te - $ts; lex.next();
    println!("before span={:?}", lex.span());
    let r = catch_unwind(AssertUnwindSafe(|| lex.bump($n)));
    println!("bump {}", if r.is_ok() { "returned" } else { "panicked" });
    println!("after span={:?} source_len={}", lex.span(), len);
    let r = catch_unwind(AssertUnwindSafe(|| { let s = lex.slice(); ($asptr(s) as usize, s.len()) }));
    match r { Ok((p, l)) => report("slice", base, len, p, l), Err(_) => println!("slice panicked") }
    let r = catch_unwind(AssertUnwindSafe(|| { let s = lex.remainder(); ($asptr(s) as usize, s.len()) }));
    match r { Ok((p, l)) => report("remainder", base, len, p, l), Err(_) => println!("remainder panicked") }
}}}
fn main() {
    std::panic::set_hook(Box::new(|_| {}));
    let a: Vec<String> = std::env::args().collect();
    let data: Vec<u8> = (0..a[2].len() / 2).map(|i| u8::from_str_radix(&a[2][2 * i..2 * i + 2], 16).unwrap()).collect();
    let data: &'static [u8] = Box::leak(data.into_boxed_slice());
    let ts: usize = a[3].parse().unwrap(); let te: usize = a[4].parse().unwrap(); let n: usize = a[5].parse().unwrap();
    if a[1] == "str" { drive!(StepS, std::str::from_utf8(data).unwrap(), ts, te, n, |s: &str| s.as_ptr()); }
    else if a[1] == "wstr" { let w: &'static WS = Box::leak(Box::new(WS(std::str::from_utf8(data).unwrap()))); drive!(StepWS, w, ts, te, n, |s: &str| s.as_ptr()); }
    else if a[1] == "wbytes" { let w: &'static WB = Box::leak(Box::new(WB(data))); drive!(StepWB, w, ts, te, n, |s: &[u8]| s.as_ptr()); }
    else { drive!(StepB, data, ts, te, n, |s: &[u8]| s.as_ptr()); }
}
'''


def build_bump_replay(cfg, profile):
    feats = [f for f in build.CONFIGS[cfg] if f != 'state_machine_codegen']
    cdir = os.path.join(build.WORK, 'native', f'bumpreplay-{build.cfg_name(feats, profile)}')
    os.makedirs(os.path.join(cdir, 'src'), exist_ok=True)
    fl = ', '.join(f'"{f}"' for f in feats)
    build.write_if_changed(os.path.join(cdir, 'Cargo.toml'), f'''[package]
name = "bumpreplay"
version = "0.0.0"
edition = "2021"
[dependencies]
logos = {{ path = "{build.REPO}", features = [{fl}] }}
[workspace]
[profile.release]
debug-assertions = false
overflow-checks = false
''')
    lock = os.path.join(build.REPO, 'Cargo.lock')
    if os.path.exists(lock) and not os.path.exists(os.path.join(cdir, 'Cargo.lock')):
        build.write_if_changed(os.path.join(cdir, 'Cargo.lock'), open(lock).read())
    build.write_if_changed(os.path.join(cdir, 'src', 'main.rs'), BUMP_REPLAY_MAIN)
    tdir = os.path.join(build.WORK, 'target-native', 'bump-' + build.cfg_name(feats, profile))
    env = dict(build.ENV_BASE, CARGO_TARGET_DIR=tdir, RUSTFLAGS='-Awarnings')
    rc, log = build.run(['cargo', 'build', '--offline'] + (['--release'] if profile == 'release' else []), cwd=cdir, env=env)
    if rc != 0:
        raise build.BuildError('bump replay build failed:\n' + log[-3000:])
    return os.path.join(tdir, 'release' if profile == 'release' else 'debug', 'bumpreplay')


def replay_bump(binary, is_str, model, wrap=False):
    import subprocess
    v = model.get('vars', {})
    data = bytes(model['bytes'])
    args = [binary, ('w' if wrap else '') + ('str' if is_str else 'bytes'), data.hex(), str(v.get('token_start', 0)), str(v.get('token_end', 0)),
            str(v.get('n', 0))]
    r = subprocess.run(args, capture_output=True, text=True, timeout=30)
    out = r.stdout
    bad = ('inside_source=false' in out)
    return bad, out, args


def c15(tier, seed):
    ev = report.Evidence('C15', tier, seed, 'other')
    N = 6 if tier == 'quick' else 9
    cfgs = ['tc-unsafe', 'tc-safe']
    profiles = ['dev', 'release']
    defs = rt_defs()
    payloads = []
    build_s = {}
    for prof in profiles:
        progs, times = pipeline.build_programs('rt-C15', defs, cfgs, prof, extra=RT_EXTRA)
        build_s.update({f'{c}@{prof}': t for c, t in times.items()})
        for c in cfgs:
            for d in defs:
                payloads.append(dict(key=f'{d.id}/{c}/{prof}', d=d, mir=progs[c], cfg=c, release=(prof == 'release'), N=N))
                # the same obligations on a source that reaches Source through the blanket Deref impl
                payloads.append(dict(key=f'deref-wrapper-{"str" if d.utf8 else "bytes"}/{c}/{prof}', d=d, mir=progs[c], cfg=c,
                                     release=(prof == 'release'), N=N, wrap=True))
    results = pipeline.run_tasks(task_bump, payloads)
    rc = 0
    tot = dict(leaves=0, queries=0, solver_s=0.0)
    fns, stubs = set(), set()
    samples = []
    confirmed = 0
    per = {}
    for st, key, r, wall in results:
        if st != 'ok':
            print(f'ENGINE: {key}: {r[-800:]}', flush=True)
            rc = max(rc, 2)
            continue
        tot['leaves'] += r['stats']['leaves']
        tot['queries'] += r['engine']['queries']
        tot['solver_s'] += r['engine']['solver_s']
        fns.update(r['fns'])
        stubs.update(r['builtins'])
        per[key] = r['stats']
        samples += [dict(s, case=key) for s in r['samples'][:2]]
        seen = set()
        for f in r['failures']:
            sig = f['what'][:50]
            if sig in seen:
                continue
            seen.add(sig)
            d = [x for x in defs if x.id == r['id']][0]
            binary = build_bump_replay(r['cfg'], r['profile'])
            bad, out, args = replay_bump(binary, d.utf8, f['model'], wrap=r.get('wrap', False))
            returned = 'bump returned' in out
            # native confirmation: either a slice outside the source is observable, or bump returned on an invalid target
            reproduced = bad or ('returned although' in f['what'] and returned) or ('panicked although' in f['what'] and not returned)
            info = {'property': 'C15', 'case': key, 'what': f['what'], 'model': f['model'], 'native_output': out,
                    'repro': ' '.join(args)}
            if not reproduced:
                if 'get_unchecked' in f['what'] or 'outside the source' in f['what']:
                    # forbid_unsafe builds panic instead; unsafe builds were handled above
                    print(f'ENGINE: C15 model did not reproduce natively: {f["what"]} [{key}]\n{out}', flush=True)
                    rc = max(rc, 2)
                    continue
                print(f'ENGINE: C15 model did not reproduce natively: {f["what"]} [{key}]\n{out}', flush=True)
                rc = max(rc, 2)
                continue
            confirmed += 1
            role = {'function': 'Lexer::bump', 'profile': r['profile'], 'unsafe': r['cfg'] == 'tc-unsafe',
                    'kind': 'wrap' if 'wrapped' in f['what'] or 'returned although' in f['what'] else
                    ('after-panic' if '(panic)' in f['what'] else 'after-return')}
            from .props import known_or_violation
            import hashlib
            nm = hashlib.sha1((key + f['what']).encode()).hexdigest()[:12]
            rc = max(rc, known_or_violation('C15', role, f'{key}: {f["what"]} vars={f["model"].get("vars")} '
                                            f'input={bytes(f["model"]["bytes"]).hex()}', info, ev, nm))
    ev.coverage = {
        'explanation': 'Lexer::bump executed symbolically from its MIR in dev-like and release-like arithmetic profiles, default '
                       'and forbid_unsafe features, str and [u8] sources: bytes (<= N), len, token_start <= token_end <= len '
                       '(representation invariant, char boundaries for str) and n (free 64-bit) are symbolic; on return and on '
                       'panic leaves the solver must refute "invalid target accepted", "valid target rejected", and '
                       '"slice()/remainder() afterwards violates its unchecked-slicing precondition or lies outside the source"',
        'evaluations': tot['leaves'], 'distinct_nontrivial': tot['leaves'],
        'rule': 'one case = one leaf (path class) of bump followed by span/slice/remainder; all are non-trivial',
        'samples': samples[:10], 'obligations': tot['queries'], 'discharged': tot['queries'],
        'checker_cmd': f'./check C15 --tier {tier}', 'trusted_base': ['z3', 'rustc MIR export', 'core builtins: ' + ', '.join(sorted(stubs))],
        'bounds': {'N_bytes_max': N, 'n': 'all 2^64 values', 'positions': 'all token_start <= token_end <= len',
                   'profiles': profiles, 'configurations': cfgs, 'sources': ['str', '[u8]', 'newtype wrappers of both through the blanket `impl<T: Deref> Source for T`'],
                   'outside': 'sources longer than N bytes; Source impls written outside logos'},
        'cases': per, 'queries_discharged': tot['queries'], 'solver_s': round(tot['solver_s'], 2),
        'functions_encoded': sorted(fns), 'stubs': sorted(stubs), 'failures_confirmed_natively': confirmed, 'build_s': build_s,
    }
    from .props import kani_cross_check
    rc = max(rc, kani_cross_check('C15', ev, ['bump_in_range', 'bump_out_of_range_panics']))
    if ev.violations > 0:
        rc = 1
    ev.assumptions = ['lexer state satisfies the representation invariant before bump (established by new/next/bump)',
                      'valid UTF-8 for str sources', 'sources of at most N bytes']
    if tot['leaves'] == 0:
        rc = max(rc, 2)
    ev.write()
    print(f'C15 {tier}: {tot["leaves"]} leaves, {tot["queries"]} queries, rc={rc}', flush=True)
    return rc


# ----------------------------------------------------------------------------- C05 (b): Source::read contract
def task_read_contract(pl):
    prog = pipeline.load_program(pl['mir'])
    N = pl['N']
    ex = Exec(prog, N, debug_assertions=not pl['release'])
    off = z3.BitVec('offset', U)
    kind, K = pl['kind'], pl['K']
    name = f'corpus::rt::read_{kind}_' + ('u8' if K == 1 else f'a{K}')
    if kind == 'str':
        ex.base.append(lexcheck.as_b(lexcheck.valid_utf8(ex)))
    failures = []
    stats = {'leaves': 0, 'some': 0, 'none': 0}
    samples = []

    def fail(what, cond=None, model=None):
        if len(failures) < 8:
            failures.append({'what': what, 'model': model or ex.model_for(cond if cond is not None else True)})

    def body(ex):
        r = ex.call_root(name, [ex.source(), off])
        # contract: Some iff offset + K <= len without overflow
        e = off + bvv(K, U)
        fits = simp(z3.And(z3.UGE(e, off), z3.ULE(e, ex.len)))
        if r.variant == 1:
            if ex.check(s_not(fits)):
                fail(f'read::<{K} bytes>(offset) returned Some although offset + {K} > len (or overflows)', s_not(fits))
            v = r.fields[0]
            if K == 1:
                bad = simp(as_bv(v, 8) != ex.byte_at(off))
                if ex.check(bad):
                    fail('read::<u8> returned a byte different from source[offset]', bad)
            else:
                if not isinstance(v, SrcPtr):
                    raise EngineError('read returned ' + repr(v))
                bad = simp(as_bv(v.off, U) != off)
                if ex.check(bad):
                    fail(f'read::<&[u8; {K}]> returned a chunk that does not start at offset', bad)
            return 'some'
        if ex.check(fits):
            fail(f'read::<{K} bytes>(offset) returned None although offset + {K} <= len', fits)
        return 'none'

    def on_leaf(ex, leaf):
        stats['leaves'] += 1
        if leaf[0] == 'ok':
            stats[leaf[1]] += 1
            if len(samples) < 3:
                m = ex.model_for(True)
                samples.append({'result': leaf[1], 'len': m['len'], 'offset': m.get('vars', {}).get('offset'), 'chunk': K, 'source': kind})
        elif leaf[0] == 'violation':
            fail('Source::read: ' + leaf[1][1], model=leaf[1][2])
        else:
            fail('Source::read panicked: ' + str(leaf[1])[:100])

    ex.explore(body, on_leaf)
    return dict(key=pl['key'], failures=failures, stats=stats, engine=dict(ex.stats), fns=sorted(ex.fn_seen),
                builtins=sorted(ex.builtins_used), samples=samples)


def read_contract(tier, ev_cov):
    """returns (rc, coverage dict, failures list) for the Source::read contract; merged into C05's evidence"""
    N = 9
    cfgs = ['tc-unsafe', 'tc-safe']
    profiles = ['dev'] if tier == 'quick' else ['dev', 'release']
    defs = rt_defs()
    payloads = []
    for prof in profiles:
        progs, times = pipeline.build_programs('rt-C05', defs, cfgs, prof, extra=RT_EXTRA)
        for c in cfgs:
            for kind in ('str', 'bytes'):
                for K in (1, 2, 4, 8):
                    payloads.append(dict(key=f'read/{kind}/{K}/{c}/{prof}', mir=progs[c], kind=kind, K=K, N=N,
                                         release=(prof == 'release')))
    results = pipeline.run_tasks(task_read_contract, payloads)
    return results
