"""mirsym: path-wise symbolic execution of monomorphised rustc MIR (JSON from tools/mirdump) with z3.

Exploration is exhaustive inside the stated bound by *replay forking*: a path is a list of branch
decisions, the program is re-executed along it, and at the first undecided symbolic branch every
alternative is checked for feasibility with the solver and queued.  Concrete values are kept as
Python ints/bools (fast path); anything depending on the input is a z3 term of the exact Rust width.

Fail-closed: anything unsupported raises EngineError (reported as exit 2 by the checks), never a pass.
"""
import json
import os
import pickle
import re
import shutil
import sys
import tempfile
import time

import z3

sys.setrecursionlimit(20000)

U = 64


class EngineError(Exception):
    """unsupported MIR / unknown callee / solver unknown: the run is inconclusive"""


class Panic(Exception):
    def __init__(self, msg):
        super().__init__(msg)
        self.msg = msg


class Infeasible(Exception):
    pass


class Violation(Exception):
    """undefined behaviour or a broken engine-level obligation on this path"""

    def __init__(self, kind, msg):
        super().__init__(msg)
        self.kind = kind
        self.msg = msg


# ----------------------------------------------------------------------------- values
class Agg:
    """struct / tuple / enum value / array / closure"""
    __slots__ = ('ty', 'variant', 'fields', 'cid')

    def __init__(self, ty, variant, fields, cid=None):
        self.ty, self.variant, self.fields = ty, variant, fields
        self.cid = cid      # id of the (immutable) constant this value is an unmodified copy of

    def __repr__(self):
        return f'Agg(t{self.ty},v{self.variant},{self.fields})'


class Cell:
    __slots__ = ('val',)

    def __init__(self, val=None):
        self.val = val


class Ref:
    """pointer/reference to (part of) a cell"""
    __slots__ = ('cell', 'path')

    def __init__(self, cell, path):
        self.cell, self.path = cell, path

    def __repr__(self):
        return f'Ref({id(self.cell) & 0xffff:x},{self.path})'


class SrcSlice:
    """&str / &[u8] / raw slice pointer into the source allocation"""
    __slots__ = ('off', 'len', 'limit')

    def __init__(self, off, ln, limit):
        self.off, self.len, self.limit = off, ln, limit

    def __repr__(self):
        return f'Src[{self.off}..+{self.len}]'


class SrcPtr:
    """thin pointer into the source allocation (*const u8, &u8, &[u8; N])"""
    __slots__ = ('off', 'limit')

    def __init__(self, off, limit):
        self.off, self.limit = off, limit

    def __repr__(self):
        return f'SrcPtr({self.off})'


class ArrSlice:
    """&[T] obtained by unsizing a reference to an array that lives in a cell or a constant (look-up / jump tables)"""
    __slots__ = ('ref', 'n')

    def __init__(self, ref, n):
        self.ref, self.n = ref, n

    def __repr__(self):
        return f'ArrSlice({self.ref!r},{self.n})'


class ConstBytes:
    """&'static str / &'static [u8] / &[u8; N] pointing into constant memory"""
    __slots__ = ('data',)

    def __init__(self, data):
        self.data = data

    def __repr__(self):
        return f'ConstBytes({bytes(self.data)!r})'


class FnItem:
    __slots__ = ('key',)

    def __init__(self, key):
        self.key = key


class Opaque:
    __slots__ = ('what',)

    def __init__(self, what):
        self.what = what

    def __repr__(self):
        return f'Opaque({self.what})'


class BF:
    """a value that is a *function of one symbolic source byte* b_k (k concrete): a 256-entry table of Python ints
    (w = bit width) or bools (w = 0).  Byte classes, LUT lookups, masks and comparisons stay tables; a z3 term is
    only built (and cached) when the solver has to decide a branch on it or the value meets another symbolic value."""
    __slots__ = ('k', 'tab', 'w')

    def __init__(self, k, tab, w):
        self.k, self.tab, self.w = k, tab, w

    def __repr__(self):
        return f'BF(b{self.k},w{self.w},#{hash(self.tab) & 0xffff:x})'


IDENT = tuple(range(256))
_bf_z3_cache = {}
_byte_vars = {}


def bf_make(k, tab, w):
    """normalise: constant tables collapse to the constant"""
    first = tab[0]
    for x in tab:
        if x != first:
            return BF(k, tab, w)
    return first


def byte_var(k):
    v = _byte_vars.get(k)
    if v is None:
        v = _byte_vars[k] = z3.BitVec(f'b{k}', 8)
    return v


def _ranges(pred):
    out = []
    b = 0
    while b < 256:
        if pred(b):
            e = b
            while e + 1 < 256 and pred(e + 1):
                e += 1
            out.append((b, e))
            b = e + 1
        else:
            b += 1
    return out


def _in_ranges(bv, rs):
    parts = []
    for lo, hi in rs:
        if lo == hi:
            parts.append(bv == lo)
        elif lo == 0:
            parts.append(z3.ULE(bv, hi))
        elif hi == 255:
            parts.append(z3.UGE(bv, lo))
        else:
            parts.append(z3.And(z3.UGE(bv, lo), z3.ULE(bv, hi)))
    if not parts:
        return z3.BoolVal(False)
    return parts[0] if len(parts) == 1 else z3.Or(parts)


def bf_z3(v):
    """the z3 term of a BF (cached per (byte, table))"""
    key = (v.k, v.tab, v.w)
    r = _bf_z3_cache.get(key)
    if r is not None:
        return r
    bv = byte_var(v.k)
    tab = v.tab
    if v.w == 0:
        pos = _ranges(lambda b: tab[b])
        neg = _ranges(lambda b: not tab[b])
        r = _in_ranges(bv, pos) if len(pos) <= len(neg) else z3.Not(_in_ranges(bv, neg))
    else:
        if tab == IDENT and v.w == 8:
            r = bv
        elif v.w > 8 and all(tab[b] == b for b in range(256)):
            r = z3.ZeroExt(v.w - 8, bv)
        else:
            vals = {}
            for b in range(256):
                vals.setdefault(tab[b], []).append(b)
            order = sorted(vals.items(), key=lambda kv: -len(kv[1]))
            r = z3.BitVecVal(order[0][0], v.w)
            for val, bs in order[1:]:
                s_ = set(bs)
                r = z3.If(_in_ranges(bv, _ranges(lambda b: b in s_)), z3.BitVecVal(val, v.w), r)
    _bf_z3_cache[key] = r
    return r


def is_sym(v):
    return isinstance(v, (z3.ExprRef, BF))


def deep(v):
    if isinstance(v, Agg):
        return Agg(v.ty, v.variant, [deep(x) for x in v.fields], v.cid)
    return v


def mask(w):
    return (1 << w) - 1


def to_signed(v, w):
    return v - (1 << w) if v >> (w - 1) else v


def bvv(v, w):
    return z3.BitVecVal(v, w)


def as_bv(v, w):
    if isinstance(v, BF):
        if v.w == 0:
            return z3.If(bf_z3(v), bvv(1, w), bvv(0, w))
        t = bf_z3(v)
        if v.w < w:
            return z3.ZeroExt(w - v.w, t)
        if v.w > w:
            return z3.Extract(w - 1, 0, t)
        return t
    if isinstance(v, bool):
        return bvv(1 if v else 0, w)
    if isinstance(v, int):
        return bvv(v, w)
    if z3.is_bool(v):
        return z3.If(v, bvv(1, w), bvv(0, w))
    return v


def as_bool(v):
    if isinstance(v, bool):
        return z3.BoolVal(v)
    if isinstance(v, BF):
        return bf_z3(v)
    return v


def simp(e):
    e = z3.simplify(e)
    if z3.is_bv_value(e):
        return e.as_long()
    if z3.is_true(e):
        return True
    if z3.is_false(e):
        return False
    return e


def s_not(a):
    if isinstance(a, bool):
        return not a
    if isinstance(a, BF):
        return bf_make(a.k, tuple(not x for x in a.tab), 0)
    key = a.get_id()
    hit = _not_cache.get(key)
    if hit is None:
        hit = _not_cache[key] = (a, simp(z3.Not(a)))      # keep `a` alive so its id is not reused
    return hit[1]


_not_cache = {}


def _unused():
    pass


def _bf_fold(xs, op):
    """combine BF bools over the same byte pointwise -> list of BF / bool"""
    groups = {}
    for x in xs:
        g = groups.get(x.k)
        if g is None:
            groups[x.k] = x
        elif isinstance(g, bool):
            groups[x.k] = bf_make(x.k, tuple(op(g, y) for y in x.tab), 0)
        else:
            groups[x.k] = bf_make(x.k, tuple(op(p, q) for p, q in zip(g.tab, x.tab)), 0)
    return list(groups.values())


def s_and(*xs):
    out = []
    bfs = []
    for x in xs:
        if isinstance(x, bool):
            if not x:
                return False
        elif isinstance(x, BF):
            bfs.append(x)
        else:
            out.append(x)
    if bfs:
        folded = _bf_fold(bfs, lambda a, b: a and b)
        for f in folded:
            if isinstance(f, bool):
                if not f:
                    return False
            elif not out and len(folded) == 1:
                return f
            else:
                out.append(bf_z3(f))
    if not out:
        return True
    return simp(z3.And(out)) if len(out) > 1 else out[0]


def s_or(*xs):
    out = []
    bfs = []
    for x in xs:
        if isinstance(x, bool):
            if x:
                return True
        elif isinstance(x, BF):
            bfs.append(x)
        else:
            out.append(x)
    if bfs:
        folded = _bf_fold(bfs, lambda a, b: a or b)
        for f in folded:
            if isinstance(f, bool):
                if f:
                    return True
            elif not out and len(folded) == 1:
                return f
            else:
                out.append(bf_z3(f))
    if not out:
        return False
    return simp(z3.Or(out)) if len(out) > 1 else out[0]


class Acc:
    """mergeable accumulator: ints add, lists extend, sets union, dicts merge recursively; keys starting with
    'max_' take the maximum.  Every leaf process of a forked exploration fills its own and the root merges them."""

    def __init__(self):
        self.d = {}

    def inc(self, k, n=1):
        self.d[k] = self.d.get(k, 0) + n

    def add(self, k, item):
        self.d.setdefault(k, []).append(item)

    def count(self, k, sub, n=1):
        dd = self.d.setdefault(k, {})
        dd[sub] = dd.get(sub, 0) + n

    def maxi(self, k, v):
        assert k.startswith('max_')
        self.d[k] = max(self.d.get(k, v), v)

    def setadd(self, k, items):
        self.d.setdefault(k, set()).update(items)

    def get(self, k, default=None):
        return self.d.get(k, default)

    def n(self, k):
        v = self.d.get(k)
        return len(v) if v is not None else 0

    @staticmethod
    def _merge(a, b):
        for k, v in b.items():
            if k not in a:
                a[k] = v
            elif isinstance(v, bool):
                a[k] = a[k] or v
            elif isinstance(v, (int, float)):
                a[k] = max(a[k], v) if k.startswith('max_') else a[k] + v
            elif isinstance(v, list):
                a[k].extend(v)
            elif isinstance(v, set):
                a[k].update(v)
            elif isinstance(v, dict):
                Acc._merge(a[k], v)
        return a

    def merge(self, other_d):
        Acc._merge(self.d, other_d)


# ----------------------------------------------------------------------------- program
class Program:
    """one mirdump export (one crate build = one configuration)"""

    def __init__(self, path):
        with open(path) as f:
            d = json.load(f)
        if d.get('errors'):
            raise EngineError('mirdump reported: ' + '; '.join(d['errors'][:5]))
        self.types = d['types']
        self.fns = d['fns']
        self.roots = {r['name']: r['key'] for r in d['roots']}
        self.by_name = {}
        for k, f in self.fns.items():
            if f is not None:
                self.by_name.setdefault(f['name'], k)
        self._const_cache = {}
        self._builtin_cache = {}

    def ty(self, i):
        return self.types[i]

    def kind(self, i):
        return self.types[i]['kind']

    def int_info(self, i):
        k = self.types[i]['kind']
        kk = k['k']
        if kk == 'int':
            return k['bits'], k['signed']
        if kk == 'bool':
            return 1, False
        if kk == 'char':
            return 32, False
        if kk in ('ptr', 'ref', 'fnptr'):
            return 64, False
        raise EngineError(f'not an integer type: {self.types[i]["name"]}')

    def find_fn(self, suffix):
        hits = [k for k, f in self.fns.items() if f and f['name'].endswith(suffix)]
        if len(hits) != 1:
            raise EngineError(f'find_fn({suffix!r}): {len(hits)} matches')
        return hits[0]


# ----------------------------------------------------------------------------- executor
class Exec:
    _cid_counter = 0

    def using(self, prog):
        """context manager: execute calls against another exported program (same symbolic source)"""
        ex = self

        class _Ctx:
            def __enter__(self_):
                self_.old = ex.p
                ex.p = prog

            def __exit__(self_, *a):
                ex.p = self_.old
        return _Ctx()

    def __init__(self, prog: Program, nbytes, *, debug_assertions=True, step_limit=400000, is_str=True,
                 time_budget=None):
        self.p = prog
        self.N = nbytes
        self.is_str = is_str
        self.debug_assertions = debug_assertions
        self.bytes = [z3.BitVec(f'b{i}', 8) for i in range(nbytes)]
        self.len = z3.BitVec('len', U)
        self.solver = z3.Solver()
        # address of the source allocation: only used by the null-pointer checks rustc inserts in debug builds
        self.src_base = z3.BitVec('src_base', U)
        self.base = [z3.ULE(self.len, bvv(nbytes, U)), z3.UGE(self.src_base, bvv(4096, U)),
                     z3.ULE(self.src_base, bvv(1 << 62, U))]
        self.stats = dict(queries=0, cached=0, paths=0, steps=0, solver_s=0.0, max_depth=0, infeasible=0)
        self.step_limit = step_limit
        self.call_step_limit = 6000 + 150 * (nbytes if isinstance(nbytes, int) else 8)
        self.fn_seen = set()
        self.builtins_used = set()
        self.trace_hooks = []          # [(regex, callback(ex, fnrec, args))]
        self.events = []
        # budgets are CPU seconds of this worker process, not wall-clock: a loaded machine must not change a verdict
        self.deadline = (time.process_time() + time_budget) if time_budget else None
        self.depth = 0
        self.stack = []
        self.path_steps = 0
        self.pc = []
        self.decisions = []
        self.dpos = 0
        self.pending = []
        self.root = ([], {})
        self.node = self.root
        self.qidx = 0
        self._select_cache = {}
        self._inb_cache = {}
        self.in_user_cb = 0
        self.acc = Acc()
        self.fork_mode = os.environ.get('VERIF_FORK', '0') == '1'
        self.use_bf = os.environ.get('VERIF_BF', '1') == '1'
        self.export_dir = os.environ.get('VERIF_EXPORT_SMT') or None
        self.export_every = int(os.environ.get('VERIF_EXPORT_EVERY', '997'))
        self._fork_dir = None
        self._is_root = True
        self.path_max_depth = 0

    # ---------------- solver
    def check(self, cond):
        """is PC ∧ cond satisfiable?"""
        if isinstance(cond, bool):
            return cond
        if isinstance(cond, BF):
            cond = bf_z3(cond)
        if z3.is_true(cond):
            return True
        if z3.is_false(cond):
            return False
        # queries issued while replaying an already explored decision prefix are deterministic
        # repetitions of queries answered before: reuse the verdict (same formula, same PC)
        node = self.node
        qi = self.qidx
        self.qidx = qi + 1
        cid = cond.get_id()
        if qi < len(node[0]):
            hit = node[0][qi]
            if hit[1] == cid:       # z3 terms are hash-consed: same id = same formula (the term is kept alive in the node)
                self.stats['cached'] += 1
                return hit[0]
            # the query sequence differs from the first visit of this prefix: do not trust the position, ask the solver
            self.stats['cache_mismatch'] = self.stats.get('cache_mismatch', 0) + 1
            qi = None
        self.stats['queries'] += 1
        t = time.time()
        self.solver.push()
        self.solver.add(cond)
        r = self.solver.check()
        self.solver.pop()
        self.stats['solver_s'] += time.time() - t
        if r == z3.unknown:
            raise EngineError('solver returned unknown')
        if self.export_dir and self.stats['queries'] % self.export_every == 0 and self.stats.get('exported', 0) < 40:
            # second-opinion sample (cvc5 / z3 4.8.12 re-decide it later)
            from . import crosscheck
            crosscheck.export_query(self.export_dir, self.stats['queries'], self.solver.assertions(), cond, r == z3.sat)
            self.stats['exported'] = self.stats.get('exported', 0) + 1
        if qi is not None:
            node[0].append((r == z3.sat, cid, cond))
        return r == z3.sat

    def model_for(self, cond):
        """a model of PC ∧ cond (caller knows it is sat)"""
        self.solver.push()
        self.solver.add(as_bool(cond))
        r = self.solver.check()
        if r != z3.sat:
            self.solver.pop()
            raise EngineError('model_for: not sat')
        m = self.solver.model()
        out = self.extract_model(m)
        self.solver.pop()
        return out

    def extract_model(self, m):
        ln = m.eval(self.len, model_completion=True).as_long()
        data = [m.eval(b, model_completion=True).as_long() for b in self.bytes]
        out = {'len': ln, 'bytes': data[:ln], 'all_bytes': data}
        for d in m.decls():
            nm = d.name()
            if nm not in ('len', 'src_base') and not re.fullmatch(r'b\d+', nm):
                v = m[d]
                try:
                    out.setdefault('vars', {})[nm] = v.as_long() if z3.is_bv_value(v) else str(v)
                except Exception:
                    out.setdefault('vars', {})[nm] = str(v)
        return out

    def assume(self, cond):
        if isinstance(cond, bool):
            if not cond:
                raise Infeasible()
            return
        if isinstance(cond, BF):
            cond = bf_z3(cond)
        self.solver.add(cond)
        self.pc.append(cond)

    def decide(self, conds, exhaustive=False):
        """pick the branch to follow among mutually exclusive, jointly exhaustive conditions"""
        live = []
        for i, c in enumerate(conds):
            if isinstance(c, bool):
                if c:
                    return i
                continue
            live.append(i)
        if not live:
            raise Infeasible()
        if any(isinstance(c, BF) for c in conds):
            conds = [bf_z3(c) if isinstance(c, BF) else c for c in conds]
        if self.dpos < len(self.decisions):
            i = self.decisions[self.dpos]
            self.dpos += 1
            self.solver.add(conds[i])
            self.pc.append(conds[i])
            self._descend(i)
            return i
        if self.deadline and time.process_time() > self.deadline:
            raise EngineError('time budget exhausted (inconclusive)')
        # the alternatives are jointly exhaustive and the path condition is satisfiable, so when every other
        # alternative has been refuted the last one needs no query
        feas = []
        for n, i in enumerate(live):
            if exhaustive and n == len(live) - 1 and not feas:
                feas.append(i)
                self.stats['implied'] = self.stats.get('implied', 0) + 1
            elif self.check(conds[i]):
                feas.append(i)
        if not feas:
            raise Infeasible()
        chosen = feas[0]
        if self.fork_mode:
            chosen = self._fork_alternatives(feas)
        else:
            for alt in feas[1:]:
                self.pending.append(self.decisions[:] + [alt])
        self.decisions.append(chosen)
        self.dpos += 1
        self.solver.add(conds[chosen])
        self.pc.append(conds[chosen])
        self._descend(chosen)
        return chosen

    def _fork_alternatives(self, alts):
        """depth-first exploration by process snapshots: a child is forked for every alternative but the first and
        runs its whole subtree while this process waits (so at most one process per pending decision is alive);
        returns the alternative this process continues with"""
        for alt in alts[1:]:
            sys.stdout.flush()
            pid = os.fork()
            if pid == 0:
                self._is_root = False
                self.acc = Acc()
                self.stats = {k: (0 if isinstance(v, int) else 0.0) for k, v in self.stats.items()}
                self.fn_seen = set()
                self.builtins_used = set()
                return alt
            _, status = os.waitpid(pid, 0)
            if status != 0:
                # the child (or one of its descendants) failed: propagate as engine error
                self._child_failed = True
        return alts[0]

    def _descend(self, i):
        ch = self.node[1]
        n = ch.get(i)
        if n is None:
            n = ch[i] = ([], {})
        self.node = n
        self.qidx = 0

    def concretize(self, v, what='value', limit=64):
        """fork on every feasible concrete value of a symbolic bit-vector (small domains only)"""
        if not is_sym(v):
            return v
        if isinstance(v, BF):
            v = as_bv(v, v.w or 8)
        v = simp(v)
        if not is_sym(v):
            return v
        # replay
        if self.dpos < len(self.decisions):
            val = self.decisions[self.dpos]
            self.dpos += 1
            c = v == bvv(val, v.size())
            self.solver.add(c)
            self.pc.append(c)
            self._descend(('v', val))
            return val
        vals = []
        self.solver.push()
        while True:
            self.stats['queries'] += 1
            r = self.solver.check()
            if r == z3.unknown:
                self.solver.pop()
                raise EngineError('solver unknown')
            if r != z3.sat:
                break
            val = self.solver.model().eval(v, model_completion=True).as_long()
            vals.append(val)
            if len(vals) > limit:
                self.solver.pop()
                raise EngineError(f'concretize({what}): more than {limit} values')
            self.solver.add(v != bvv(val, v.size()))
        self.solver.pop()
        if not vals:
            raise Infeasible()
        vals.sort()
        chosen = vals[0]
        if self.fork_mode:
            chosen = self._fork_alternatives(vals)
        else:
            for alt in vals[1:]:
                self.pending.append(self.decisions[:] + [alt])
        self.decisions.append(chosen)
        self.dpos += 1
        c = v == bvv(chosen, v.size())
        self.solver.add(c)
        self.pc.append(c)
        self._descend(('v', chosen))
        return chosen

    # ---------------- source memory
    def byte_at(self, off):
        if isinstance(off, int):
            if off >= self.N:
                raise EngineError(f'byte_at({off}) beyond symbolic buffer N={self.N}')
            return self.bytes[off]
        t = bvv(0, 8)
        for i in range(self.N - 1, -1, -1):
            t = z3.If(off == bvv(i, U), self.bytes[i], t)
        return t

    def in_bounds(self, off, size, limit):
        """off + size <= limit without wrap-around"""
        if isinstance(off, int) and isinstance(limit, int):
            return off + size <= limit
        if isinstance(off, int) and limit is self.len:
            r = self._inb_cache.get(off + size)
            if r is None:
                r = self._inb_cache[off + size] = simp(z3.ULE(bvv(off + size, U), self.len))
            return r
        o = as_bv(off, U)
        e = o + bvv(size, U)
        return simp(z3.And(z3.ULE(o, e), z3.ULE(e, as_bv(limit, U))))

    def load_src(self, off, limit):
        ok = self.in_bounds(off, 1, limit)
        self.events.append(('load' if not self.in_user_cb else 'cbload', off, 1))
        if self.check(s_not(ok)):
            raise Violation('oob', f'out-of-bounds source read: offset {off} size 1 limit {limit}')
        if isinstance(off, int) and self.use_bf:
            if off >= self.N:
                raise EngineError(f'byte_at({off}) beyond symbolic buffer N={self.N}')
            return BF(off, IDENT, 8)
        return self.byte_at(off)

    # ---------------- constants
    def decode_const(self, c):
        k = c['k']
        ty = c['ty']
        if k == 'zst':
            return self.zst_value(ty)
        if k == 'usize':
            return c['val']
        if k == 'alloc':
            key = json.dumps(c, sort_keys=True) if len(c['alloc']['bytes']) > 16 else None
            if key is not None and key in self.p._const_cache:
                return self.p._const_cache[key]
            v = self.decode_alloc(c['alloc'], 0, ty)
            if key is not None:
                if isinstance(v, Agg):
                    Exec._cid_counter += 1
                    v.cid = Exec._cid_counter
                self.p._const_cache[key] = v
            return v
        raise EngineError('unsupported constant ' + k)

    def zst_value(self, ty):
        kd = self.p.kind(ty)
        kk = kd['k']
        if kk == 'fndef':
            return FnItem(kd['fn'])
        if kk == 'tuple':
            return Agg(ty, None, [self.zst_value(t) for t in kd['fields']])
        if kk == 'closure':
            return Agg(ty, None, [])
        if kk == 'adt':
            t = self.p.ty(ty)
            var = t.get('variants', {})
            vi = var.get('index', 0) if var.get('k') == 'single' else 0
            vs = kd['variants']
            if not vs:
                raise EngineError('zst of uninhabited adt')
            return Agg(ty, vi if kd['adt_kind'] == 'enum' else None,
                       [self.zst_value(f['ty']) for f in vs[vi]['fields']])
        if kk == 'array':
            return Agg(ty, None, [])
        raise EngineError(f'zst of kind {kk}')

    def read_uint(self, alloc, off, size):
        bs = alloc['bytes'][off:off + size]
        if any(b is None for b in bs):
            raise EngineError('uninitialised bytes in constant')
        return int.from_bytes(bytes(bs), 'little')

    def decode_alloc(self, alloc, off, ty):
        t = self.p.ty(ty)
        kd = t['kind']
        kk = kd['k']
        if kk == 'int':
            return self.read_uint(alloc, off, kd['bits'] // 8)
        if kk == 'bool':
            return self.read_uint(alloc, off, 1) != 0
        if kk == 'char':
            return self.read_uint(alloc, off, 4)
        if kk in ('ref', 'ptr'):
            pk = self.p.kind(kd['pointee'])
            target = None
            for o, tg in alloc['ptrs']:
                if o == off:
                    target = tg
            if target is None:
                return Opaque('dangling-or-int-pointer')
            if target['k'] == 'fn':
                return FnItem(target['fn'])
            if target['k'] != 'mem':
                return Opaque('ptr:' + target['k'])
            inner = target['alloc']
            if pk['k'] in ('str', 'slice'):
                ln = self.read_uint(alloc, off + 8, 8)
                start = 0
                data = inner['bytes'][start:start + ln]
                if pk['k'] == 'slice' and self.p.kind(pk['elem']) != {'k': 'int', 'bits': 8, 'signed': False}:
                    return Opaque('const-slice')
                return ConstBytes(list(data))
            if pk['k'] == 'array' and self.p.kind(pk['elem']).get('bits') == 8:
                return ConstBytes(list(inner['bytes'][:pk['len']]))
            # pointer to some other constant: decode it in place
            return Ref(Cell(self.decode_alloc(inner, 0, kd['pointee'])), ())
        if kk == 'tuple':
            offs = t['fields']['offsets'] if t['fields']['k'] == 'struct' else []
            return Agg(ty, None, [self.decode_alloc(alloc, off + o, ft) for o, ft in zip(offs, kd['fields'])])
        if kk == 'array':
            st = t['fields']['stride']
            return Agg(ty, None, [self.decode_alloc(alloc, off + i * st, kd['elem']) for i in range(kd['len'])])
        if kk == 'adt':
            var = t['variants']
            if kd['adt_kind'] == 'struct':
                offs = t['fields']['offsets']
                return Agg(ty, None, [self.decode_alloc(alloc, off + o, f['ty'])
                                      for o, f in zip(offs, kd['variants'][0]['fields'])])
            if kd['adt_kind'] != 'enum':
                raise EngineError('union constant')
            if var['k'] == 'single':
                vi = var['index']
                offs = t['fields']['offsets'] if t['fields']['k'] == 'struct' else []
                return Agg(ty, vi, [self.decode_alloc(alloc, off + o, f['ty'])
                                    for o, f in zip(offs, kd['variants'][vi]['fields'])])
            if var['k'] == 'multiple':
                tagoff = t['fields']['offsets'][var['tag_field']]
                tagsize = self.scalar_size(var['tag'])
                tag = self.read_uint(alloc, off + tagoff, tagsize)
                enc = var['encoding']
                if enc['k'] == 'direct':
                    vi = None
                    for i, v in enumerate(kd['variants']):
                        if int(v['discr']) & mask(tagsize * 8) == tag:
                            vi = i
                    if vi is None:
                        raise EngineError('bad enum tag in constant')
                else:
                    ns = int(enc['niche_start'])
                    rel = (tag - ns) & mask(tagsize * 8)
                    if rel <= enc['last'] - enc['first']:
                        vi = enc['first'] + rel
                    else:
                        vi = enc['untagged']
                offs = var['variants'][vi]
                return Agg(ty, vi, [self.decode_alloc(alloc, off + o, f['ty'])
                                    for o, f in zip(offs, kd['variants'][vi]['fields'])])
            raise EngineError('enum constant with variants ' + var['k'])
        if kk == 'closure':
            return Agg(ty, None, [])
        raise EngineError(f'constant of kind {kk}')

    @staticmethod
    def scalar_size(sc):
        # serde form of rustc_public::abi::Scalar
        body = sc.get('Initialized') or sc.get('Union')
        prim = body['value']
        if 'Int' in prim:
            return {'I8': 1, 'I16': 2, 'I32': 4, 'I64': 8, 'I128': 16}[prim['Int']['length']]
        if 'Pointer' in prim:
            return 8
        raise EngineError('tag scalar ' + str(prim))

    # ---------------- places
    def eval_place(self, fr, locals_ty, place):
        """-> (lvalue, type id)"""
        l = place['l']
        cur = ('cell', fr[l], ())
        ty = locals_ty[l]
        for pr in place['p']:
            op = pr[0]
            if op == 'field':
                if cur[0] == 'symidx':
                    # a field of TABLE[i] with a symbolic i (`if let Some(s) = TABLE[byte as usize]`): the element is selected
                    # first (forking over distinct variants), the projection continues in a temporary -- reads only
                    cur = ('cell', Cell(self.read_lv(cur)), ())
                if cur[0] != 'cell':
                    raise EngineError('field of non-cell place')
                cur = ('cell', cur[1], cur[2] + (pr[1],))
                ty = pr[2]
            elif op == 'deref':
                v = self.read_lv(cur)
                kd = self.p.kind(ty)
                pointee = kd.get('pointee')
                if pointee is None:
                    raise EngineError('deref of non-pointer type ' + self.p.ty(ty)['name'])
                pk = self.p.kind(pointee)
                if isinstance(v, Ref):
                    cur = ('cell', v.cell, v.path)
                elif isinstance(v, SrcSlice):
                    cur = ('srcslice', v)
                elif isinstance(v, SrcPtr):
                    if pk['k'] == 'array':
                        cur = ('srcarr', v.off, pk['len'], v.limit)
                    else:
                        cur = ('srcbyte', v.off, v.limit)
                elif isinstance(v, ConstBytes):
                    cur = ('constbytes', v)
                elif isinstance(v, ArrSlice):
                    cur = ('cell', v.ref.cell, v.ref.path)
                elif v is None:
                    raise EngineError('deref of uninitialised pointer')
                else:
                    raise EngineError(f'deref of {v!r}')
                ty = pointee
            elif op == 'downcast':
                pass
            elif op in ('index', 'cindex'):
                if op == 'index':
                    idx = fr[pr[1]].val
                else:
                    if pr[3]:
                        raise EngineError('from_end constant index')
                    idx = pr[1]
                ty = self.p.kind(ty)['elem']
                if cur[0] == 'srcarr':
                    cur = ('srcbyte', self.add_off(cur[1], idx), cur[3])
                elif cur[0] == 'srcslice':
                    s = cur[1]
                    cur = ('srcbyte', self.add_off(s.off, idx), self.add_off(s.off, s.len))
                elif cur[0] == 'constbytes':
                    cur = ('constbyte', cur[1], idx)
                elif cur[0] == 'cell':
                    if isinstance(idx, int):
                        cur = ('cell', cur[1], cur[2] + (idx,))
                    else:
                        cur = ('symidx', cur, idx, ty)
                else:
                    raise EngineError('index into ' + cur[0])
            else:
                raise EngineError('projection ' + op)
        return cur, ty

    @staticmethod
    def add_off(a, b):
        if isinstance(a, int):
            if isinstance(b, int):
                return (a + b) & mask(U)
            if a == 0:
                return b
        elif isinstance(b, int) and b == 0:
            return a
        return simp(as_bv(a, U) + as_bv(b, U))

    def read_lv(self, lv):
        k = lv[0]
        if k == 'cell':
            v = lv[1].val
            for i in lv[2]:
                if not isinstance(v, Agg):
                    raise EngineError(f'projection into non-aggregate {v!r}')
                v = v.fields[i]
            return v
        if k == 'srcbyte':
            return self.load_src(lv[1], lv[2])
        if k == 'constbyte':
            idx = lv[2]
            if not isinstance(idx, int):
                idx = self.concretize(idx, 'const byte index')
            return lv[1].data[idx]
        if k == 'symidx':
            arr = self.read_lv(lv[1])
            if arr.cid is not None:
                ix = lv[2]
                key = (arr.cid, ('bf', ix.k, ix.tab) if isinstance(ix, BF) else ix.get_id())
                hit = self._select_cache.get(key)
                if hit is not None and hit[0] is not None:
                    return hit[0]
            r = self.sym_select(arr.fields, lv[2], lv[3] if len(lv) > 3 else None)
            if arr.cid is not None and (isinstance(r, (int, bool)) or is_sym(r)):
                self._select_cache[key] = (r, lv[2])     # keep idx alive so its id is not reused
            return r
        if k == 'srcslice':
            return lv[1]
        raise EngineError('read of place kind ' + k)

    def sym_select(self, elems, idx, elem_ty=None):
        """elems[idx] for a symbolic idx: group equal elements, build an ite chain (scalars) or fork"""
        if isinstance(idx, BF):
            n = len(elems)
            tab = idx.tab
            if all(t < n for t in tab):
                if all(isinstance(e, (int, bool)) for e in elems):
                    if isinstance(elems[0], bool):
                        w = 0
                    else:
                        w = self.p.int_info(elem_ty)[0] if elem_ty is not None else 8
                    return bf_make(idx.k, tuple(elems[t] for t in tab), w)
                if not any(is_sym(e) for e in elems):
                    groups = {}
                    for b in range(256):
                        e = elems[tab[b]]
                        key = repr(e)
                        g = groups.get(key)
                        if g is None:
                            groups[key] = (e, [b])
                        else:
                            g[1].append(b)
                    gl = sorted(groups.values(), key=lambda g: -len(g[1]))
                    if len(gl) == 1:
                        return deep(gl[0][0])
                    conds = []
                    for e, bs in gl:
                        sset = set(bs)
                        conds.append(BF(idx.k, tuple(b in sset for b in range(256)), 0))
                    i = self.decide(conds)
                    return deep(gl[i][0])
            idx = as_bv(idx, idx.w or 8)
        groups = {}
        for i, e in enumerate(elems):
            key = e.sexpr() if is_sym(e) else repr(e)
            g = groups.get(key)
            if g is None:
                groups[key] = (e, [i])
            else:
                g[1].append(i)
        w = idx.size()

        def rng(ixs):
            out = []
            s = p = ixs[0]
            for x in ixs[1:]:
                if x == p + 1:
                    p = x
                else:
                    out.append((s, p))
                    s = p = x
            out.append((s, p))
            return simp(z3.Or([z3.And(z3.UGE(idx, bvv(a, w)), z3.ULE(idx, bvv(b, w))) if a != b else idx == bvv(a, w)
                               for a, b in out]))

        gl = sorted(groups.values(), key=lambda g: -len(g[1]))
        if len(gl) == 1:
            return deep(gl[0][0])
        scalar = all(isinstance(e, (int, bool)) or is_sym(e) for e, _ in gl)
        if scalar:
            first = gl[0][0]
            if isinstance(first, bool) or (is_sym(first) and z3.is_bool(first)):
                t = as_bool(first)
                for e, ixs in gl[1:]:
                    t = z3.If(rng(ixs), as_bool(e), t)
            else:
                width = next((e.size() for e, _ in gl if is_sym(e)), 8)
                # width of concrete ints is not recorded: table elements are u8 in generated code
                t = as_bv(first, width)
                for e, ixs in gl[1:]:
                    t = z3.If(rng(ixs), as_bv(e, width), t)
            return simp(t)
        i = self.decide([rng(ixs) for _, ixs in gl])
        return deep(gl[i][0])

    def write_lv(self, lv, val):
        if lv[0] != 'cell':
            raise EngineError('write to place kind ' + lv[0])
        cell, path = lv[1], lv[2]
        if not path:
            cell.val = val
            return
        v = cell.val
        for i in path[:-1]:
            v.cid = None
            v = v.fields[i]
        if not isinstance(v, Agg):
            raise EngineError('write into non-aggregate')
        v.cid = None
        v.fields[path[-1]] = val

    # ---------------- operands / rvalues
    def operand(self, fr, lt, op):
        k = op[0]
        if k == 'const':
            return deep(self.decode_const(op[1]))
        if k in ('copy', 'move'):
            pl = op[1]
            if not pl['p']:
                v = fr[pl['l']].val
            else:
                lv, _ = self.eval_place(fr, lt, pl)
                v = self.read_lv(lv)
            if v is None:
                raise EngineError(f'read of uninitialised local _{pl["l"]}')
            return deep(v) if isinstance(v, Agg) else v
        if k == 'rtcheck':
            return self.debug_assertions
        raise EngineError('operand ' + k)

    def binop(self, op, a, b, oty):
        kd = self.p.kind(oty)
        if kd['k'] in ('ptr', 'ref'):
            return self.ptr_binop(op, a, b)
        w, signed = self.p.int_info(oty)
        if isinstance(a, BF) or isinstance(b, BF):
            r = self.bf_binop(op, a, b, w, signed, kd['k'] == 'bool')
            if r is not NotImplemented:
                return r
            a = as_bool(a) if kd['k'] == 'bool' and isinstance(a, BF) else (as_bv(a, w) if isinstance(a, BF) else a)
            b = as_bool(b) if kd['k'] == 'bool' and isinstance(b, BF) else (as_bv(b, w) if isinstance(b, BF) else b)
        if kd['k'] == 'bool':
            return self.bool_binop(op, a, b)
        conc = isinstance(a, int) and isinstance(b, int)
        if conc:
            m = mask(w)
            if signed:
                sa, sb = to_signed(a, w), to_signed(b, w)
            else:
                sa, sb = a, b
            if op in ('Add', 'AddUnchecked'):
                return (a + b) & m
            if op in ('Sub', 'SubUnchecked'):
                return (a - b) & m
            if op in ('Mul', 'MulUnchecked'):
                return (a * b) & m
            if op == 'BitAnd':
                return a & b
            if op == 'BitOr':
                return a | b
            if op == 'BitXor':
                return a ^ b
            if op == 'Eq':
                return a == b
            if op == 'Ne':
                return a != b
            if op == 'Lt':
                return sa < sb
            if op == 'Le':
                return sa <= sb
            if op == 'Gt':
                return sa > sb
            if op == 'Ge':
                return sa >= sb
            if op in ('Shl', 'ShlUnchecked'):
                return (a << (b % w)) & m
            if op in ('Shr', 'ShrUnchecked'):
                return ((sa >> (b % w)) & m) if signed else (a >> (b % w))
            if op == 'Rem':
                if b == 0:
                    raise EngineError('rem by zero reached')
                if signed:
                    r = abs(sa) % abs(sb)
                    return (-r if sa < 0 else r) & m
                return a % b
            if op == 'Div':
                if b == 0:
                    raise EngineError('div by zero reached')
                if signed:
                    q = abs(sa) // abs(sb)
                    return (-q if (sa < 0) != (sb < 0) else q) & m
                return a // b
            raise EngineError('binop ' + op)
        x, y = as_bv(a, w), as_bv(b, w)
        if op in ('Shl', 'ShlUnchecked', 'Shr', 'ShrUnchecked'):
            if y.size() != w:
                y = z3.ZeroExt(w - y.size(), y) if y.size() < w else z3.Extract(w - 1, 0, y)
            y = z3.URem(y, bvv(w, w))
        if x.size() != w or y.size() != w:
            raise EngineError(f'binop width mismatch {op} {x.size()} {y.size()} {w}')
        if op in ('Add', 'AddUnchecked'):
            r = x + y
        elif op in ('Sub', 'SubUnchecked'):
            r = x - y
        elif op in ('Mul', 'MulUnchecked'):
            r = x * y
        elif op == 'BitAnd':
            r = x & y
        elif op == 'BitOr':
            r = x | y
        elif op == 'BitXor':
            r = x ^ y
        elif op == 'Eq':
            r = x == y
        elif op == 'Ne':
            r = x != y
        elif op == 'Lt':
            r = (x < y) if signed else z3.ULT(x, y)
        elif op == 'Le':
            r = (x <= y) if signed else z3.ULE(x, y)
        elif op == 'Gt':
            r = (x > y) if signed else z3.UGT(x, y)
        elif op == 'Ge':
            r = (x >= y) if signed else z3.UGE(x, y)
        elif op in ('Shl', 'ShlUnchecked'):
            r = x << y
        elif op in ('Shr', 'ShrUnchecked'):
            r = (x >> y) if signed else z3.LShR(x, y)
        elif op == 'Rem':
            r = z3.SRem(x, y) if signed else z3.URem(x, y)
        elif op == 'Div':
            r = (x / y) if signed else z3.UDiv(x, y)
        else:
            raise EngineError('binop ' + op)
        return simp(r)

    _CMP = {'Eq', 'Ne', 'Lt', 'Le', 'Gt', 'Ge'}

    def bf_binop(self, op, a, b, w, signed, is_bool):
        """pointwise evaluation when the operands depend on (at most) one and the same source byte"""
        if isinstance(a, BF) and isinstance(b, BF):
            if a.k != b.k:
                return NotImplemented
            k = a.k
            ta, tb = a.tab, b.tab
        elif isinstance(a, BF):
            if not isinstance(b, (int, bool)):
                return NotImplemented
            k = a.k
            ta, tb = a.tab, (b,) * 256
        else:
            if not isinstance(a, (int, bool)):
                return NotImplemented
            k = b.k
            ta, tb = (a,) * 256, b.tab
        if is_bool:
            f = {'BitAnd': lambda x, y: bool(x) and bool(y), 'BitOr': lambda x, y: bool(x) or bool(y),
                 'BitXor': lambda x, y: bool(x) != bool(y), 'Eq': lambda x, y: bool(x) == bool(y),
                 'Ne': lambda x, y: bool(x) != bool(y)}.get(op)
            if f is None:
                return NotImplemented
            return bf_make(k, tuple(f(x, y) for x, y in zip(ta, tb)), 0)
        m = mask(w)
        if signed:
            sg = lambda v: to_signed(v & m, w)      # noqa: E731
        else:
            sg = lambda v: v      # noqa: E731
        if op in ('Add', 'AddUnchecked'):
            f = lambda x, y: (x + y) & m      # noqa: E731
        elif op in ('Sub', 'SubUnchecked'):
            f = lambda x, y: (x - y) & m      # noqa: E731
        elif op in ('Mul', 'MulUnchecked'):
            f = lambda x, y: (x * y) & m      # noqa: E731
        elif op == 'BitAnd':
            f = lambda x, y: x & y      # noqa: E731
        elif op == 'BitOr':
            f = lambda x, y: x | y      # noqa: E731
        elif op == 'BitXor':
            f = lambda x, y: x ^ y      # noqa: E731
        elif op == 'Eq':
            f = lambda x, y: x == y      # noqa: E731
        elif op == 'Ne':
            f = lambda x, y: x != y      # noqa: E731
        elif op == 'Lt':
            f = lambda x, y: sg(x) < sg(y)      # noqa: E731
        elif op == 'Le':
            f = lambda x, y: sg(x) <= sg(y)      # noqa: E731
        elif op == 'Gt':
            f = lambda x, y: sg(x) > sg(y)      # noqa: E731
        elif op == 'Ge':
            f = lambda x, y: sg(x) >= sg(y)      # noqa: E731
        elif op in ('Shl', 'ShlUnchecked'):
            f = lambda x, y: (x << (y % w)) & m      # noqa: E731
        elif op in ('Shr', 'ShrUnchecked'):
            f = (lambda x, y: (sg(x) >> (y % w)) & m) if signed else (lambda x, y: x >> (y % w))      # noqa: E731
        elif op == 'Rem' and not signed:
            if any(y == 0 for y in tb):
                return NotImplemented
            f = lambda x, y: x % y      # noqa: E731
        elif op == 'Div' and not signed:
            if any(y == 0 for y in tb):
                return NotImplemented
            f = lambda x, y: x // y      # noqa: E731
        else:
            return NotImplemented
        ta = tuple(int(x) for x in ta)
        tb = tuple(int(y) for y in tb)
        return bf_make(k, tuple(f(x, y) for x, y in zip(ta, tb)), 0 if op in self._CMP else w)

    def bool_binop(self, op, a, b):
        if isinstance(a, bool) and isinstance(b, bool):
            return {'BitAnd': a and b, 'BitOr': a or b, 'BitXor': a != b, 'Eq': a == b, 'Ne': a != b}[op]
        x, y = as_bool(a), as_bool(b)
        if op == 'BitAnd':
            return simp(z3.And(x, y))
        if op == 'BitOr':
            return simp(z3.Or(x, y))
        if op in ('BitXor', 'Ne'):
            return simp(z3.Xor(x, y))
        if op == 'Eq':
            return simp(x == y)
        raise EngineError('bool binop ' + op)

    def ptr_binop(self, op, a, b):
        if op == 'Offset':
            if isinstance(a, SrcPtr):
                return SrcPtr(self.add_off(a.off, b), a.limit)
            raise EngineError('Offset on non-source pointer')
        if isinstance(a, SrcPtr) and isinstance(b, SrcPtr):
            x, y = a.off, b.off
            if isinstance(x, int) and isinstance(y, int):
                return {'Eq': x == y, 'Ne': x != y, 'Lt': x < y, 'Le': x <= y, 'Gt': x > y, 'Ge': x >= y}[op]
            x, y = as_bv(x, U), as_bv(y, U)
            return simp({'Eq': x == y, 'Ne': x != y, 'Lt': z3.ULT(x, y), 'Le': z3.ULE(x, y),
                         'Gt': z3.UGT(x, y), 'Ge': z3.UGE(x, y)}[op])
        raise EngineError('pointer comparison')

    def checked_binop(self, op, a, b, oty):
        w, signed = self.p.int_info(oty)
        if signed:
            raise EngineError('checked signed arithmetic')
        if isinstance(a, BF):
            a = as_bv(a, w)
        if isinstance(b, BF):
            b = as_bv(b, w)
        if isinstance(a, int) and isinstance(b, int):
            full = {'Add': a + b, 'Sub': a - b, 'Mul': a * b}[op]
            return Agg(None, None, [full & mask(w), not (0 <= full <= mask(w))])
        x, y = as_bv(a, w), as_bv(b, w)
        if op == 'Add':
            r = x + y
            ov = z3.ULT(r, x)
        elif op == 'Sub':
            r = x - y
            ov = z3.ULT(x, y)
        elif op == 'Mul':
            r = x * y
            ov = z3.Not(z3.BVMulNoOverflow(x, y, False))
        else:
            raise EngineError('checked ' + op)
        return Agg(None, None, [simp(r), simp(ov)])

    def cast(self, kind, v, ty, src_ty):
        if kind == 'IntToInt':
            w, _ = self.p.int_info(ty)
            sw, ssigned = self.p.int_info(src_ty)
            if isinstance(v, bool):
                return 1 if v else 0
            if isinstance(v, BF):
                if v.w == 0:
                    return bf_make(v.k, tuple(1 if x else 0 for x in v.tab), w)
                if ssigned:
                    return bf_make(v.k, tuple(to_signed(x, sw) & mask(w) for x in v.tab), w)
                return bf_make(v.k, tuple(x & mask(w) for x in v.tab), w)
            if isinstance(v, int):
                if ssigned:
                    v = to_signed(v, sw)
                return v & mask(w)
            if z3.is_bool(v):
                return simp(z3.If(v, bvv(1, w), bvv(0, w)))
            if w > sw:
                return simp(z3.SignExt(w - sw, v) if ssigned else z3.ZeroExt(w - sw, v))
            if w < sw:
                return simp(z3.Extract(w - 1, 0, v))
            return v
        if kind in ('PtrToPtr', 'Transmute', 'Subtype') or kind.startswith('PointerCoercion'):
            tk = self.p.kind(ty)
            if kind.startswith('PointerCoercion(Unsize') or 'Unsize' in kind:
                # &[u8; N] -> &[u8]
                sk = self.p.kind(src_ty)
                pk = self.p.kind(sk['pointee']) if 'pointee' in sk else {}
                if isinstance(v, SrcPtr) and pk.get('k') == 'array':
                    return SrcSlice(v.off, pk['len'], v.limit)
                if isinstance(v, ConstBytes):
                    return v
                if isinstance(v, Ref) and pk.get('k') == 'array':
                    return ArrSlice(v, pk['len'])
                raise EngineError('unsize cast of ' + repr(v))
            if kind == 'Transmute' and tk['k'] == 'int':
                if tk['bits'] == 64 and isinstance(v, SrcPtr):
                    return simp(self.src_base + as_bv(v.off, U))
                if isinstance(v, (int, bool)) or is_sym(v):
                    sk = self.p.kind(src_ty)
                    if sk['k'] in ('int', 'bool', 'char') and self.p.ty(src_ty).get('size') == self.p.ty(ty).get('size'):
                        return v if not isinstance(v, bool) else int(v)
                raise EngineError(f'transmute of {v!r} to integer')
            if kind == 'Transmute' and (isinstance(v, (int, bool)) or is_sym(v)):
                # integer reinterpreted as pointer/NonNull/...: only used to build panic payloads
                return Opaque('transmuted-int')
            if isinstance(v, (SrcPtr, Ref, ConstBytes, ArrSlice)):
                return v
            if isinstance(v, SrcSlice):
                # fat -> thin
                if tk['k'] in ('ptr', 'ref') and self.p.kind(tk['pointee'])['k'] not in ('str', 'slice'):
                    return SrcPtr(v.off, v.limit)
                return v
            if kind == 'Transmute':
                sk = self.p.kind(src_ty)
                if sk == tk:
                    return v
                if tk['k'] == 'int' and tk['bits'] == 64 and isinstance(v, SrcPtr):
                    return simp(self.src_base + as_bv(v.off, U))
            raise EngineError(f'cast {kind} of {v!r}')
        raise EngineError('cast kind ' + kind)

    def discriminant(self, v, ty, rty):
        kd = self.p.kind(ty)
        if kd['k'] != 'adt' or kd['adt_kind'] != 'enum':
            return 0
        if not isinstance(v, Agg) or v.variant is None:
            raise EngineError(f'discriminant of {v!r}')
        w, _ = self.p.int_info(rty)
        return int(kd['variants'][v.variant]['discr']) & mask(w)

    def rvalue(self, fr, lt, rvw):
        rv = rvw['rv']
        k = rv[0]
        if k == 'use':
            return self.operand(fr, lt, rv[1])
        if k in ('ref', 'addrof'):
            lv, ty = self.eval_place(fr, lt, rv[1])
            kk = lv[0]
            if kk == 'cell':
                return Ref(lv[1], lv[2])
            if kk == 'srcbyte':
                return SrcPtr(lv[1], lv[2])
            if kk == 'srcarr':
                if k == 'ref':
                    ok = self.in_bounds(lv[1], lv[2], lv[3])
                    self.events.append(('refarr', lv[1], lv[2]))
                    if self.check(s_not(ok)):
                        raise Violation('oob', f'reference to out-of-bounds [u8; {lv[2]}] at {lv[1]} (limit {lv[3]})')
                return SrcPtr(lv[1], lv[3])
            if kk == 'srcslice':
                return lv[1]
            if kk == 'constbytes':
                return lv[1]
            raise EngineError('ref of place kind ' + kk)
        if k == 'binop':
            return self.binop(rv[1], self.operand(fr, lt, rv[2]), self.operand(fr, lt, rv[3]), rv[4])
        if k == 'checked_binop':
            return self.checked_binop(rv[1], self.operand(fr, lt, rv[2]), self.operand(fr, lt, rv[3]), rv[4])
        if k == 'unop':
            a = self.operand(fr, lt, rv[2])
            if rv[1] == 'Not':
                if isinstance(a, BF):
                    if a.w == 0:
                        return bf_make(a.k, tuple(not x for x in a.tab), 0)
                    return bf_make(a.k, tuple((~x) & mask(a.w) for x in a.tab), a.w)
                if isinstance(a, bool):
                    return not a
                if isinstance(a, int):
                    w, _ = self.p.int_info(rv[3])
                    return (~a) & mask(w)
                return simp(z3.Not(a) if z3.is_bool(a) else ~a)
            if rv[1] == 'PtrMetadata':
                if isinstance(a, SrcSlice):
                    return a.len
                if isinstance(a, ConstBytes):
                    return len(a.data)
                if isinstance(a, ArrSlice):
                    return a.n
                raise EngineError('PtrMetadata of ' + repr(a))
            if rv[1] == 'Neg':
                w, _ = self.p.int_info(rv[3])
                if isinstance(a, BF):
                    return bf_make(a.k, tuple((-x) & mask(w) for x in a.tab), w)
                if isinstance(a, int):
                    return (-a) & mask(w)
                return simp(-a)
            raise EngineError('unop ' + rv[1])
        if k == 'cast':
            return self.cast(rv[1], self.operand(fr, lt, rv[2]), rv[3], rv[4])
        if k == 'discr':
            lv, ty = self.eval_place(fr, lt, rv[1])
            return self.discriminant(self.read_lv(lv), ty, rvw['ty'])
        if k == 'len':
            lv, ty = self.eval_place(fr, lt, rv[1])
            if lv[0] == 'srcarr':
                return lv[2]
            if lv[0] == 'srcslice':
                return lv[1].len
            if lv[0] == 'constbytes':
                return len(lv[1].data)
            v = self.read_lv(lv)
            if isinstance(v, Agg):
                return len(v.fields)
            raise EngineError('len of ' + repr(v))
        if k == 'aggregate':
            ak = rv[1]
            ops = [self.operand(fr, lt, o) for o in rv[2]]
            if ak[0] == 'adt':
                kd = self.p.kind(ak[1])
                if kd['adt_kind'] == 'enum':
                    return Agg(ak[1], ak[2], ops)
                if kd['adt_kind'] == 'union':
                    raise EngineError('union aggregate')
                return Agg(ak[1], None, ops)
            if ak[0] == 'tuple':
                return Agg(rvw['ty'], None, ops)
            if ak[0] == 'array':
                return Agg(rvw['ty'], None, ops)
            if ak[0] == 'closure':
                return Agg(ak[1], None, ops)
            if ak[0] == 'rawptr':
                # (data pointer, metadata)
                d, m = ops
                if isinstance(d, SrcPtr):
                    if isinstance(m, Agg) and not m.fields:
                        return d
                    return SrcSlice(d.off, m, d.limit)
                raise EngineError('rawptr aggregate of ' + repr(d))
            raise EngineError('aggregate ' + ak[0])
        if k == 'repeat':
            v = self.operand(fr, lt, rv[1])
            return Agg(rvw['ty'], None, [deep(v) for _ in range(rv[2])])
        raise EngineError('rvalue ' + k)

    # ---------------- calls
    def call(self, key, args):
        f = self.p.fns.get(key)
        if f is None:
            raise EngineError('unknown callee ' + str(key))
        name = f['name']
        post = None
        for rx, cb in self.trace_hooks:
            if rx.search(name):
                pf = cb(self, f, args)
                if pf is not None:
                    post = pf
        b = self.builtin_for(f)
        if b is not None:
            self.builtins_used.add(b.__name__[3:] if b.__name__.startswith('bi_') else b.__name__)
            r = b(self, f, args)
        else:
            if f['body'] is None:
                raise EngineError(f'no MIR body and no builtin for `{name}` (kind {f["kind"]})')
            self.fn_seen.add(name)
            r = self.run_fn(f, args)
        if post is not None:
            post(r)
        return r

    def builtin_for(self, f):
        from . import builtins
        key = f['name']
        c = self.p._builtin_cache
        if key not in c:
            c[key] = builtins.lookup(f)
        return c[key]

    def call_value(self, fv, args):
        """call through a value (fn item / closure / reference to closure)"""
        if isinstance(fv, FnItem):
            return self.call(fv.key, args)
        raise EngineError('indirect call through ' + repr(fv))

    def run_fn(self, f, args):
        body = f['body']
        lt = body['locals']
        fr = [Cell() for _ in lt]
        if self.p.kind(f['ty'])['k'] == 'closure' and f['kind'] == 'item':
            # "rust-call" ABI: closures are always called as (self, (a, b, ..))
            last = args[-1]
            if not (isinstance(last, Agg) and last.variant is None):
                raise EngineError('closure call without argument tuple')
            args = list(args[:-1]) + list(last.fields)
        if len(args) != body['arg_count']:
            # "rust-call" ABI: the caller passes (self, (a, b, ..)), a closure body takes (self, a, b, ..)
            last = args[-1] if args else None
            if isinstance(last, Agg) and last.variant is None and len(args) - 1 + len(last.fields) == body['arg_count']:
                args = list(args[:-1]) + list(last.fields)
            else:
                raise EngineError(f'arity mismatch calling {f["name"]}: {len(args)} vs {body["arg_count"]}')
        for i, a in enumerate(args):
            fr[i + 1].val = a
        blocks = body['blocks']
        self.depth += 1
        self.stack.append(f['name'])
        if self.depth > self.stats['max_depth']:
            self.stats['max_depth'] = self.depth
        if self.depth > self.path_max_depth:
            self.path_max_depth = self.depth
        bb = 0
        try:
            while True:
                blk = blocks[bb]
                for st in blk['s']:
                    k = st[0]
                    if k == 'assign':
                        val = self.rvalue(fr, lt, st[2])
                        pl = st[1]
                        if not pl['p']:
                            fr[pl['l']].val = val
                        else:
                            lv, _ = self.eval_place(fr, lt, pl)
                            self.write_lv(lv, val)
                    elif k in ('live', 'dead'):
                        pass
                    elif k == 'setdiscr':
                        lv, ty = self.eval_place(fr, lt, st[1])
                        v = self.read_lv(lv)
                        if isinstance(v, Agg):
                            v.variant = st[2]
                        else:
                            nf = len(self.p.kind(ty)['variants'][st[2]]['fields'])
                            self.write_lv(lv, Agg(ty, st[2], [None] * nf))
                    elif k == 'assume':
                        c = self.operand(fr, lt, st[1])
                        if self.check(s_not(c)):
                            raise Violation('assume', f'core::intrinsics::assume can be false in {f["name"]}')
                    else:
                        raise EngineError('statement ' + k)
                self.path_steps += 1
                if self.path_steps > self.step_limit:
                    raise Violation('steps', 'step budget exceeded (non-termination?)')
                t = blk['t']
                k = t[0]
                if k == 'goto':
                    bb = t[1]
                elif k == 'switch':
                    d = self.operand(fr, lt, t[1])
                    if isinstance(d, bool):
                        d = 1 if d else 0
                    if isinstance(d, BF):
                        conds = []
                        taken = [False] * 256
                        for val, tgt in t[2]:
                            v = int(val)
                            tabc = tuple((int(x) == v) for x in d.tab)
                            taken = [a or b for a, b in zip(taken, tabc)]
                            conds.append(bf_make(d.k, tabc, 0))
                        conds.append(bf_make(d.k, tuple(not x for x in taken), 0))
                        i = self.decide(conds, exhaustive=True)
                        bb = t[2][i][1] if i < len(t[2]) else t[3]
                    elif isinstance(d, int):
                        for val, tgt in t[2]:
                            if int(val) == d:
                                bb = tgt
                                break
                        else:
                            bb = t[3]
                    else:
                        if z3.is_bool(d):
                            conds = []
                            for val, tgt in t[2]:
                                conds.append(s_not(d) if int(val) == 0 else d)
                            conds.append(s_not(s_or(*conds)))
                        else:
                            w = d.size()
                            conds = [simp(d == bvv(int(val), w)) for val, _ in t[2]]
                            conds.append(s_not(s_or(*conds)))
                        i = self.decide(conds, exhaustive=True)
                        bb = t[2][i][1] if i < len(t[2]) else t[3]
                elif k == 'call':
                    c = t[1]
                    args2 = [self.operand(fr, lt, a) for a in c['args']]
                    if c['fn'] is not None:
                        if isinstance(c['fn'], dict):
                            raise EngineError('unresolved callee ' + json.dumps(c['fn']))
                        r = self.call(c['fn'], args2)
                    else:
                        fv = self.operand(fr, lt, c['fnop'])
                        r = self.call_value(fv, args2)
                    if c['target'] is None:
                        raise EngineError('diverging call returned: ' + str(c['fn']))
                    pl = c['dest']
                    if not pl['p']:
                        fr[pl['l']].val = r
                    else:
                        lv, _ = self.eval_place(fr, lt, pl)
                        self.write_lv(lv, r)
                    bb = c['target']
                elif k == 'return':
                    r = fr[0].val
                    if r is None:
                        r = Agg(lt[0], None, [])
                    return r
                elif k == 'assert':
                    c = self.operand(fr, lt, t[1])
                    ok = c if t[2] else s_not(c)
                    i = self.decide([ok, s_not(ok)], exhaustive=True)
                    if i == 1:
                        raise Panic('assert: ' + t[3])
                    bb = t[4]
                elif k == 'drop':
                    if t[3]:
                        raise EngineError('drop of a type with drop glue')
                    bb = t[2]
                elif k == 'unreachable':
                    raise Violation('unreachable', 'reached `unreachable` terminator in ' + f['name'])
                else:
                    raise EngineError('terminator ' + k)
        except (EngineError, AttributeError, TypeError, KeyError, IndexError) as e:
            if not getattr(e, '_annotated', False):
                e._annotated = True
                e.args = (f'{e.args[0] if e.args else e!r} [in {" > ".join(self.stack[-4:])} bb{bb}]',) + e.args[1:]
            raise
        finally:
            self.depth -= 1
            self.stack.pop()

    # ---------------- driver
    def call_root(self, name, args):
        key = self.p.roots.get(name)
        if key is None:
            raise EngineError('no root function ' + name)
        if not name.endswith('::h_next'):
            return self.call(key, args)
        # one next() call: its own step budget (a lexer that spins on <= N bytes is reported as a violation with a
        # model instead of running into the wall-clock budget), and the largest count seen goes to the statistics
        start = self.path_steps
        saved = self.step_limit
        self.step_limit = min(saved, start + self.call_step_limit)
        try:
            return self.call(key, args)
        finally:
            self.step_limit = saved
            used = self.path_steps - start
            if used > self.stats.get('max_call_steps', 0):
                self.stats['max_call_steps'] = used

    def source(self, ln=None):
        """the source as a &str / &[u8] of symbolic length"""
        ln = self.len if ln is None else ln
        return SrcSlice(0, ln, ln)

    def _run_one_path(self, body, on_leaf):
        try:
            out = body(self)
            leaf = ('ok', out)
        except Panic as e:
            leaf = ('panic', e.msg)
        except Violation as e:
            leaf = ('violation', (e.kind, e.msg, self.model_for(True)))
        except Infeasible:
            leaf = None
            self.stats['infeasible'] += 1
        if leaf is not None and on_leaf:
            on_leaf(self, leaf)
        return leaf

    def sample_this_leaf(self, every=48):
        """deterministic thinning of per-leaf samples (each leaf process has its own accumulator)"""
        if not self.fork_mode:
            return True
        h = 0
        for d in self.decisions:
            h = (h * 1000003 + (d if isinstance(d, int) else hash(d))) & 0xffffffff
        return h % every == 0

    def explore_forked(self, body, on_leaf=None):
        """every feasible path runs in its own process (fork at each decision), results are merged through files"""
        import gc
        base_tmp = os.environ.get('VERIF_FORK_TMP') or os.path.join(os.path.dirname(os.path.dirname(os.path.abspath(__file__))), '.work', 'forktmp')
        os.makedirs(base_tmp, exist_ok=True)
        self._fork_dir = tempfile.mkdtemp(prefix='fork-', dir=base_tmp)
        self._is_root = True
        self._child_failed = False
        root_pid = os.getpid()
        self.decisions = []
        self.dpos = 0
        self.pc = []
        self.events = []
        self.path_steps = 0
        self.depth = 0
        self.stack = []
        self.path_max_depth = 0
        self.in_user_cb = 0
        self.node = self.root = ([], {})
        self.qidx = 0
        self.solver.push()
        self.solver.add(self.base)
        gc.collect()
        gc.freeze()
        err = None
        try:
            self._run_one_path(body, on_leaf)
            self.stats['paths'] += 1
            self.stats['steps'] += self.path_steps
        except BaseException as e:      # noqa: in a child everything must end in _exit
            err = e
        if os.getpid() != root_pid:
            # leaf process: hand the results to the root and disappear
            code = 0
            try:
                rec = {'acc': self.acc.d, 'stats': self.stats, 'fns': self.fn_seen, 'builtins': self.builtins_used,
                       'error': (type(err).__name__ + ': ' + str(err)) if err is not None else None}
                with open(os.path.join(self._fork_dir, f'{os.getpid()}-{time.time_ns()}.pkl'), 'wb') as f:
                    pickle.dump(rec, f)
                if err is not None or self._child_failed:
                    code = 3
            except BaseException:      # noqa
                code = 4
            os._exit(code)
        # root: merge
        gc.unfreeze()
        self.solver.pop()
        errors = []
        try:
            for fn in os.listdir(self._fork_dir):
                with open(os.path.join(self._fork_dir, fn), 'rb') as f:
                    rec = pickle.load(f)
                self.acc.merge(rec['acc'])
                for k, v in rec['stats'].items():
                    if k.startswith('max_'):
                        self.stats[k] = max(self.stats.get(k, 0), v)
                    else:
                        self.stats[k] = self.stats.get(k, 0) + v
                self.fn_seen.update(rec['fns'])
                self.builtins_used.update(rec['builtins'])
                if rec['error']:
                    errors.append(rec['error'])
        finally:
            shutil.rmtree(self._fork_dir, ignore_errors=True)
        if err is not None:
            raise err
        if errors:
            raise EngineError('in a forked path: ' + errors[0])
        if self._child_failed:
            raise EngineError('a forked path process died without a result')
        return None

    def explore(self, body, on_leaf=None):
        """run body(ex) along every feasible path. Returns list of (kind, payload) (None in fork mode:
        results are gathered in self.acc by on_leaf)."""
        if self.fork_mode:
            return self.explore_forked(body, on_leaf)
        self.pending = [[]]
        leaves = []
        self.root = ([], {})
        while self.pending:
            self.node = self.root
            self.qidx = 0
            self.decisions = self.pending.pop()
            self.dpos = 0
            self.pc = []
            self.events = []
            self.path_steps = 0
            self.depth = 0
            self.stack = []
            self.path_max_depth = 0
            self.in_user_cb = 0
            self.solver.push()
            self.solver.add(self.base)
            try:
                try:
                    out = body(self)
                    leaf = ('ok', out)
                except Panic as e:
                    leaf = ('panic', e.msg)
                except Violation as e:
                    leaf = ('violation', (e.kind, e.msg, self.model_for(True)))
                except Infeasible:
                    leaf = None
                    self.stats['infeasible'] += 1
                if leaf is not None:
                    if on_leaf:
                        on_leaf(self, leaf)
                    leaves.append(leaf)
            finally:
                self.solver.pop()
            self.stats['paths'] += 1
            self.stats['steps'] += self.path_steps
        return leaves
