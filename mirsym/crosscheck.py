"""Second opinion on the solver's verdicts: a sample of the queries issued by the executor is exported as SMT-LIB2
(`set-logic ALL`) together with z3's answer and re-decided by cvc5 and by the system z3 4.8.12.  Any `(error` line
or disagreement makes the run inconclusive (exit 2)."""
import glob
import os
import subprocess
import time


def export_query(directory, idx, assertions, cond, answer):
    import z3
    s = z3.Solver()
    s.add(assertions)
    s.add(cond)
    txt = s.to_smt2()
    txt = '(set-logic ALL)\n' + '\n'.join(l for l in txt.splitlines() if not l.startswith('(set-info') and not l.startswith('(set-logic'))
    os.makedirs(directory, exist_ok=True)
    with open(os.path.join(directory, f'q{idx:05d}_{os.getpid()}.smt2'), 'w') as f:
        f.write(f'; expected: {"sat" if answer else "unsat"}\n' + txt + '\n')


def run(directory, limit=400, timeout=60):
    files = sorted(glob.glob(os.path.join(directory, '*.smt2')))[:limit]
    out = {'queries': len(files), 'cvc5_agree': 0, 'z3_4_8_agree': 0, 'disagreements': [], 'errors': [], 's': 0.0}
    t = time.time()
    for fp in files:
        with open(fp) as f:
            exp = f.readline().split(':')[1].strip()
        for name, cmd in (('cvc5', ['cvc5', '--lang', 'smt2', fp]), ('z3_4_8', ['/usr/bin/z3', fp])):
            try:
                r = subprocess.run(cmd, capture_output=True, text=True, timeout=timeout)
                ans = r.stdout.strip().splitlines()
            except subprocess.TimeoutExpired:
                out['errors'].append((os.path.basename(fp), name, 'timeout'))
                continue
            if any(l.startswith('(error') for l in ans) or not ans:
                out['errors'].append((os.path.basename(fp), name, (ans or [r.stderr[:100]])[0][:120]))
                continue
            got = ans[0]
            if got == exp:
                out[name + '_agree'] += 1
            else:
                out['disagreements'].append((os.path.basename(fp), name, exp, got))
    out['s'] = round(time.time() - t, 1)
    return out
