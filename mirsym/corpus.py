"""Corpus of lexer definitions: spec objects, Rust rendering (for the real derive) and independent
reference requests (for tools/refdfa)."""
import re
from dataclasses import dataclass, field
from typing import List, Optional, Tuple, Union

Lit = Union[str, bytes]


@dataclass
class Pat:
    kind: str                 # 'token' | 'regex'
    lit: Lit                  # str -> "..." literal, bytes -> b"..." literal
    prio: Optional[int] = None
    ignore_case: bool = False
    cb: Optional[str] = None  # name of a callback in CALLBACKS / inline closure text
    allow_greedy: Optional[bool] = None
    order: Optional[Tuple[str, ...]] = None   # explicit order of named args (C18)
    cb_named: bool = False    # render the callback as `callback = ...`
    cb_kind: Optional[str] = None   # documented return-type row of the callback (C13): unit|bool|result_unit|value|
    #                                 option|result|skip|result_skip|filter|filter_result|token|result_token|...
    cb_fn: Optional[str] = None     # name of the corpus function the callback calls (for the executor's log)


def T(lit, **kw):
    return Pat('token', lit, **kw)


def R(lit, **kw):
    return Pat('regex', lit, **kw)


@dataclass
class Var:
    name: str
    pats: List[Pat]
    field: Optional[str] = None      # None = unit variant; otherwise the field type text


@dataclass
class Def:
    id: str
    variants: List[Var]
    skips: List[Pat] = field(default_factory=list)
    utf8: bool = True
    subs: List[Tuple[str, Lit]] = field(default_factory=list)
    error: Optional[str] = None            # error type text
    error_cb: Optional[str] = None
    extras: Optional[str] = None
    prelude: str = ''                       # extra Rust items in the module (callbacks, types)
    logos_items_order: Optional[List[int]] = None   # permutation of #[logos(...)] items (C18)
    combined_logos_attr: bool = False       # render all #[logos] items in one attribute
    tags: Tuple[str, ...] = ()
    expect: str = 'accept'                  # 'accept' | 'reject'
    note: str = ''

    @property
    def src_ty(self):
        return 'str' if self.utf8 else '[u8]'

    @property
    def has_lifetime(self):
        return any(v.field and "'s" in v.field for v in self.variants)

    def patterns(self):
        """all patterns in leaf order (skips first, then variants in order) with their outcome"""
        out = []
        for s in self.skips:
            out.append((s, ('skip',), 'skip'))
        for vi, v in enumerate(self.variants):
            for p in v.pats:
                out.append((p, ('variant', vi), v.name))
        return out


# ----------------------------------------------------------------------------- rust rendering
def rust_str(s: str) -> str:
    out = ['"']
    for ch in s:
        o = ord(ch)
        if ch == '"':
            out.append('\\"')
        elif ch == '\\':
            out.append('\\\\')
        elif ch == '\n':
            out.append('\\n')
        elif ch == '\t':
            out.append('\\t')
        elif ch == '\r':
            out.append('\\r')
        elif 0x20 <= o < 0x7f:
            out.append(ch)
        else:
            out.append('\\u{%x}' % o)
    out.append('"')
    return ''.join(out)


def rust_bytes(b: bytes) -> str:
    out = ['b"']
    for o in b:
        if o == 0x22:
            out.append('\\"')
        elif o == 0x5c:
            out.append('\\\\')
        elif 0x20 <= o < 0x7f:
            out.append(chr(o))
        else:
            out.append('\\x%02x' % o)
    out.append('"')
    return ''.join(out)


def rust_lit(l: Lit) -> str:
    return rust_bytes(l) if isinstance(l, bytes) else rust_str(l)


def render_pat_args(p: Pat) -> str:
    args = [rust_lit(p.lit)]
    if p.cb and not p.cb_named:
        args.append(p.cb)
    named = {}
    if p.cb and p.cb_named:
        named['callback'] = f'callback = {p.cb}'
    if p.prio is not None:
        named['priority'] = f'priority = {p.prio}'
    if p.ignore_case:
        named['ignore'] = 'ignore(case)'
    if p.allow_greedy is not None:
        named['allow_greedy'] = f'allow_greedy = {"true" if p.allow_greedy else "false"}'
    order = p.order or ('callback', 'priority', 'allow_greedy', 'ignore')
    for k in order:
        if k in named:
            args.append(named.pop(k))
    args.extend(named.values())
    return ', '.join(args)


def render_enum(d: Def, derive_line='#[derive(Logos, Debug, PartialEq, Clone)]') -> str:
    lines = [derive_line]
    items = []
    if not d.utf8:
        items.append('utf8 = false')
    if d.error:
        if d.error_cb:
            items.append(f'error({d.error}, {d.error_cb})')
        else:
            items.append(f'error = {d.error}')
    if d.extras:
        items.append(f'extras = {d.extras}')
    for name, lit in d.subs:
        items.append(f'subpattern {name} = {rust_lit(lit)}')
    for s in d.skips:
        a = render_pat_args(s)
        if a == rust_lit(s.lit):
            items.append(f'skip {a}')
        else:
            items.append(f'skip({a})')
    if d.logos_items_order is not None:
        items = [items[i] for i in d.logos_items_order]
    if d.combined_logos_attr:
        if items:
            lines.append(f'#[logos({", ".join(items)})]')
    else:
        for it in items:
            lines.append(f'#[logos({it})]')
    lines.append("pub enum Tok<'s> {" if d.has_lifetime else 'pub enum Tok {')
    for v in d.variants:
        for p in v.pats:
            lines.append(f'    #[{p.kind}({render_pat_args(p)})]')
        if v.field:
            lines.append(f'    {v.name}({v.field}),')
        else:
            lines.append(f'    {v.name},')
    lines.append('}')
    return '\n'.join(lines)


HARNESS = '''
    pub type Lx = Lexer<'static, TOK>;
    pub type Item = Option<Result<TOK, <TOK as Logos<'static>>::Error>>;
    pub fn h_new(src: &'static SRC) -> Lx { Lexer::new(src) }
    pub fn h_new_partial(src: &'static SRC) -> Lx { Lexer::new_partial(src) }
    pub fn h_next(lex: &mut Lx) -> Item { lex.next() }
    pub fn h_bump(lex: &mut Lx, n: usize) { lex.bump(n) }
    pub fn h_span(lex: &Lx) -> core::ops::Range<usize> { lex.span() }
    pub fn h_slice(lex: &Lx) -> &'static SRC { lex.slice() }
    pub fn h_remainder(lex: &Lx) -> &'static SRC { lex.remainder() }
    pub fn h_clone(lex: &Lx) -> Lx { lex.clone() }
'''


_CB_FN = re.compile(r'(pub fn (cb_\w+)\((_?lex): &mut L\)[^{;]*\{)')


def instrument_callbacks(prelude: str) -> str:
    """every corpus callback logs its invocation (name, span at entry) when the crate is built with `--cfg cb_log`
    (native replay of C13 failures only; with the cfg off -- all MIR builds -- the statement does not exist)"""
    return _CB_FN.sub(lambda m: f'{m.group(1)} #[cfg(cb_log)] crate::cb_log("{m.group(2)}", {m.group(3)}.span());', prelude)


CB_LOG_ITEM = '''
#[cfg(cb_log)]
pub fn cb_log(name: &str, sp: core::ops::Range<usize>) { println!("CB {} {} {}", name, sp.start, sp.end); }
'''


def render_module(d: Def) -> str:
    extras_default = ''
    return (f'pub mod {d.id} {{\n    #![allow(unused_imports, dead_code)]\n    use logos::{{Lexer, Logos, Skip, Filter, FilterResult}};\n'
            f'    pub type SRC = {d.src_ty};\n'
            f'{indent(instrument_callbacks(d.prelude))}\n{indent(render_enum(d))}\n'
            + HARNESS.replace('TOK', "Tok<'static>" if d.has_lifetime else 'Tok') + f'{extras_default}}}\n')


def indent(s, n=4):
    return '\n'.join((' ' * n + l) if l else l for l in s.split('\n'))


def render_lib(defs: List[Def], extra='') -> str:
    return '#![allow(dead_code, unused_imports, unexpected_cfgs, clippy::all)]\n' + CB_LOG_ITEM + '\n'.join(render_module(d) for d in defs) + extra


def render_replay_main(defs: List[Def], ident: str = '') -> str:
    """a native driver: `replay <def id> <hex input> [partial]` prints one line per item;
    `replay --ident` prints `ident` (the hash of the sources it was built from, checked after every build)"""
    arms = []
    for d in defs:
        conv = 'std::str::from_utf8(data).expect("valid utf8")' if d.utf8 else 'data'
        arms.append(f'        "{d.id}" => run::<corpus::{d.id}::Tok>({conv}, partial, start),')   # lifetime inferred
    return '''use logos::{Lexer, Logos};
fn run<'s, T: Logos<'s> + std::fmt::Debug>(src: &'s T::Source, partial: bool, start: usize) where T::Extras: Default, T::Error: std::fmt::Debug {
    let mut lex: Lexer<'s, T> = if partial { Lexer::new_partial(src) } else { Lexer::new(src) };
    if start > 0 { lex.bump(start); }
    let mut n = 0;
    loop {
        n += 1;
        if n > 10000 { println!("TOOMANY"); break; }
        let item = lex.next();
        let sp = lex.span();
        #[cfg(logos_verif)]
        {
            let r = logos::verif_trace::take();
            println!("READS {}", r.iter().map(|(o, s)| format!("{o}:{s}")).collect::<Vec<_>>().join(","));
        }
        match item {
            None => { println!("NONE {} {}", sp.start, sp.end); break; }
            Some(Ok(t)) => println!("OK {} {} {:?}", sp.start, sp.end, t),
            Some(Err(e)) => println!("ERR {} {} {:?}", sp.start, sp.end, e),
        }
        // the accessors a user would call next (checked builds panic here when the span is not sliceable)
        std::hint::black_box(lex.slice());
        std::hint::black_box(lex.remainder());
        println!("ACC");
    }
}
fn main() {
    let a: Vec<String> = std::env::args().collect();
    if a.len() > 1 && a[1] == "--ident" { println!("IDENT ''' + ident + '''"); return; }
    let data: Vec<u8> = (0..a[2].len() / 2).map(|i| u8::from_str_radix(&a[2][2 * i..2 * i + 2], 16).unwrap()).collect();
    let data: &'static [u8] = Box::leak(data.into_boxed_slice());
    let partial = a.len() > 3 && a[3] == "partial";
    let start: usize = if a.len() > 4 { a[4].parse().unwrap() } else { 0 };
    match a[1].as_str() {
''' + '\n'.join(arms) + '''
        other => panic!("unknown definition {other}"),
    }
}
'''


# ----------------------------------------------------------------------------- reference requests
META = set('\\.+*?()|[]{}^$#&-~')


def lit_bytes(l: Lit) -> bytes:
    return l if isinstance(l, bytes) else l.encode('utf8')


def bytes_regex_src(b: bytes) -> str:
    """the pattern text logos documents for a byte-string *regex* literal: ASCII bytes verbatim,
    others as \\xNN (compiled with Unicode mode off)"""
    return ''.join(chr(o) if o <= 127 else '\\x%02X' % o for o in b)


def escaped_literal_regex(l: Lit) -> str:
    """independent escaping of a literal for the ignore(case) reference: every char as a code point
    escape (str) or a byte escape (bytes)"""
    if isinstance(l, bytes):
        return ''.join('\\x%02X' % o for o in l)
    return ''.join('\\x{%X}' % ord(ch) for ch in l)


def inline_subpatterns(src: str, subs_resolved: dict) -> str:
    def rep(m):
        name = m.group(1)
        if name not in subs_resolved:
            raise KeyError(name)
        return subs_resolved[name]
    return re.sub(r'\(\?&([0-9a-zA-Z_]+)\)', rep, src)


def resolve_subpatterns(d: Def) -> dict:
    """name -> regex text of the subpattern wrapped in a non-capturing group carrying its own
    Unicode mode (C11's statement), earlier subpatterns inlined into later ones"""
    out = {}
    for name, lit in d.subs:
        src = bytes_regex_src(lit) if isinstance(lit, bytes) else lit
        flag = '-u' if isinstance(lit, bytes) else 'u'
        src = inline_subpatterns(src, out)
        out[name] = f'(?{flag}:{src})'
    return out


def ref_request(d: Def):
    subs = None
    pats = []
    for p, outcome, vname in d.patterns():
        unicode = not isinstance(p.lit, bytes)
        if p.kind == 'token':
            if p.ignore_case:
                pats.append({'kind': 'regex', 'src': escaped_literal_regex(p.lit), 'unicode': unicode,
                             'ignore_case': True})
            else:
                pats.append({'kind': 'literal', 'bytes': list(lit_bytes(p.lit))})
        else:
            src = bytes_regex_src(p.lit) if isinstance(p.lit, bytes) else p.lit
            if '(?&' in src:
                try:
                    if subs is None:
                        subs = resolve_subpatterns(d)
                    src = inline_subpatterns(src, subs)
                except KeyError as e:
                    pats.append({'kind': 'regex', 'src': '(?&' + str(e.args[0]) + ')', 'unicode': unicode,
                                 'ignore_case': p.ignore_case, 'undefined_subpattern': e.args[0]})
                    continue
            pats.append({'kind': 'regex', 'src': src, 'unicode': unicode, 'ignore_case': p.ignore_case})
    return {'utf8': d.utf8, 'patterns': pats}


def documented_priority(p: Pat, facts) -> int:
    if p.prio is not None:
        return p.prio
    if p.kind == 'token':
        return 2 * len(lit_bytes(p.lit))
    return facts['doc_priority']
