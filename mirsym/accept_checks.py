"""Checks whose implementation side is the derive's verdict (accept / compile_error) per definition, decided
against solver queries on the reference tables: C08 (ambiguity), C09 (default priorities), C18 (argument order),
and the acceptance halves of C03 / C04 / C11 / C12."""
import copy
import hashlib
import itertools
import json
import random
import time

import z3

from . import corpus, corpus_defs, pipeline, ref, report
from .corpus import Def, Pat, R, T, Var
from .exec import U, bvv, s_and, s_not, s_or, simp


class SymInput:
    """symbolic bytes/len + solver, the part of Exec the Reference terms need"""

    def __init__(self, N):
        self.N = N
        self.bytes = [z3.BitVec(f'b{i}', 8) for i in range(N)]
        self.len = z3.BitVec('len', U)
        self.solver = z3.Solver()
        self.solver.add(z3.ULE(self.len, bvv(N, U)))
        self.queries = 0
        self.solver_s = 0.0

    def sat(self, cond):
        if isinstance(cond, bool):
            return (cond, None)
        self.queries += 1
        t = time.time()
        self.solver.push()
        self.solver.add(cond)
        r = self.solver.check()
        m = None
        if r == z3.sat:
            mm = self.solver.model()
            ln = mm.eval(self.len, model_completion=True).as_long()
            m = bytes(mm.eval(b, model_completion=True).as_long() for b in self.bytes)[:ln]
        self.solver.pop()
        self.solver_s += time.time() - t
        if r == z3.unknown:
            raise RuntimeError('solver unknown')
        return (r == z3.sat, m)


def product_depth(tables):
    """number of reachable states of the product of all reference DFAs (any witness of a language
    question about the tuple of patterns can be shortened to at most this many bytes)"""
    start = tuple(t.start for t in tables)
    seen = {start}
    frontier = [start]
    while frontier and len(seen) < 5000:
        nxt = []
        for st in frontier:
            # representative bytes: one per combination of classes
            combos = {}
            for b in range(256):
                key = tuple(t.classes[b] for t in tables)
                if key not in combos:
                    combos[key] = b
            for key, b in combos.items():
                ns = tuple(t.trans[q][c] for t, q, c in zip(tables, st, key))
                if any(t.live[q] for t, q in zip(tables, ns)) and ns not in seen:
                    seen.add(ns)
                    nxt.append(ns)
        frontier = nxt
    return len(seen)


def tie_query(tables, N):
    """exists w, |w| <= N (w = whole input) fully matched by >= 2 patterns sharing the top priority among the matching ones?"""
    si = SymInput(N)
    R_ = ref.Reference(si, tables)
    alts = []
    for j in range(1, N + 1):
        alts.append(s_and(simp(si.len == bvv(j, U)), R_.tie(0, j)))
    sat, w = si.sat(s_or(*alts))
    tied = None
    if sat:
        conc = [t for t in tables if t.matches(list(w), 0, len(w))]
        top = max(t.prio for t in conc)
        tied = [t.name for t in conc if t.prio == top]
    return sat, w, tied, si


def is_ambiguity(errors):
    return any('can match simultaneously' in e for e in errors)


# ----------------------------------------------------------------------------- C08
def c08_family(seed, thorough):
    D = []

    def mk(i, pats, tags=(), utf8=True):
        D.append(Def(f'amb{i}', utf8=utf8, variants=[Var(f'V{j}', [p]) for j, p in enumerate(pats)], tags=tags))
    cases = [
        [R('[a-z]+'), R('[a-f]+')],
        [R('[a-z]+'), T('fast')],
        [R('a|b'), R('[a-b]')],
        [R('ab'), T('ab')],
        [R('[a-z]+', prio=3), R('[a-c]+', prio=3), T('abc')],
        [R('[0-9]+', prio=5), R('[0-9a-f]+', prio=5)],
        [R('[0-9]+', prio=5), R('[0-9a-f]+', prio=6)],
        [R('a{5}'), R('[a-b]{5}')],
        [T('Ab', ignore_case=True), T('aB')],
        [R('a$'), T('a')],
        [R('a$', prio=3), T('a')],
        [R('[ab]', prio=2), R('[ab]', prio=2), R('[a-b]', prio=5)],     # tie shadowed by a higher priority pattern
        [R('[ab]', prio=2), R('[ab]', prio=2), R('a', prio=5)],         # only partly shadowed
        [R('a+'), R('b+')],
        [T('a'), T('ab')],
        [R('(ab)+'), R('a(ba)*b')],
        [R('x[0-9]*'), R('x[0-9]?'), T('x', prio=1)],
        [R('[a-z]{3}', prio=4), T('abc', prio=4), R('ab.', prio=4)],
        [R('é+'), R('[à-ÿ]+')],
        [R('(?i)k'), T('K')],
        [T('=='), T('='), R('=+')],
        [R('[a-c]+x'), R('[b-d]+x')],
        [R('a[^a]'), R('[^b]b')],
        [R('ab|cd'), R('cd|ef', prio=4)],
        # ties whose members are separated in declaration order by a lower / higher priority pattern
        [T('if'), R('[a-z]+'), R('i[a-z]')],
        [R('[a-z]+', prio=7), R('[a-z0-9]+', prio=3), R('[a-f]+', prio=7)],
        [R('a+', prio=3), T('aa', prio=9), R('a{2}', prio=3), R('[ab]+', prio=3)],
        [T('x', prio=5), R('x|y', prio=1), R('[x]', prio=5), R('x?y?z?x', prio=1)],
        [R('[0-9]+', prio=2), R('[0-9]', prio=6), R('[0-4]', prio=4), R('[0-9]', prio=6)],
        # multi-byte literals: token priority counts bytes
        [T('é'), R('[à-ÿ]', prio=4)],
        [T('é'), R('[à-ÿ]')],
        [T('日本'), R('[一-龥]{2}', prio=12)],
        [T('日本'), R('[一-龥]{2}')],
        [T(b'\xC3\xA9'), R(b'[\xC0-\xDF][\x80-\xBF]', prio=4)],
        # counted repetitions on their default priority: ties at the true value, no tie at a lowered one
        [R('[0-9]{4}'), T('2024')],
        [R('[0-9a-f]{2,}'), R('[a-z]+', prio=4)],
        [R('[0-9]{2}'), R('[0-9]+')],
        [R('(ab){3}', prio=12), R('[ab]{6}')],
        [R('x{2,4}'), R('x+', prio=3)],
        # ignore(case) literals with metacharacters / high bytes: the default is 2 x the *literal's* byte length
        [T('a+', ignore_case=True), R('[aA]\\+', prio=4)],
        [T('a+', ignore_case=True), R('[aA]\\+', prio=6)],
        [T(b'k\xFF', ignore_case=True), R(b'[kK]\xFF', prio=4)],
        [T(b'k\xFF', ignore_case=True), R(b'[kK]\xFF', prio=10)],
    ]
    for i, c in enumerate(cases):
        mk(i, c, ('amb', 'quick') if (i < 14 or i >= 24) else ('amb',), utf8=not any(isinstance(p.lit, bytes) for p in c))
    # seeded random small definitions
    rnd = random.Random(1000 + seed)
    atoms = ['a', 'b', 'c', '[ab]', '[a-c]', '[bc]', '.', 'ab', 'bc']
    ops = ['', '+', '*', '?', '{2}']

    def gen():
        n = rnd.randint(1, 3)
        parts = []
        for _ in range(n):
            a = rnd.choice(atoms)
            o = rnd.choice(ops)
            parts.append((f'({a})' if len(a) > 1 and not a.startswith('[') and o else a) + o)
        s = ''.join(parts)
        if rnd.random() < 0.3:
            s = s + '|' + rnd.choice(atoms)
        return s
    k = 0
    count = 24 if thorough else 8
    while k < count:
        pats = []
        for _ in range(rnd.randint(2, 4)):
            pr = rnd.choice([None, None, 2, 3, 4])
            if rnd.random() < 0.25:
                pats.append(T(rnd.choice(['a', 'ab', 'abc', 'b', 'bc', 'c']), prio=pr))
            else:
                pats.append(R(gen(), prio=pr))
        D.append(Def(f'ambr{seed}_{k}', variants=[Var(f'V{j}', [p]) for j, p in enumerate(pats)], tags=('amb', 'rand')))
        k += 1
    return D


def c08(tier, seed):
    ev = report.Evidence('C08', tier, seed, 'other')
    thorough = tier != 'quick'
    fam = c08_family(seed, thorough)
    extra = [d for d in corpus_defs.all_defs(seed, thorough) if 'cb' not in d.tags]
    defs = fam + extra
    verdicts = pipeline.derive_verdicts(defs)
    from .props import known_or_violation, log
    rc = 0
    cases = []
    tot_q = 0
    tot_s = 0.0
    nontrivial = 0
    NCAP = 8 if not thorough else 12
    skipped = []
    for d in defs:
        v = verdicts[d.id]
        tables, recs, req = pipeline.reference_tables(d)
        if tables is None:
            skipped.append(d.id)
            continue
        if any(r['dfa'].get('has_empty') for r in recs):
            skipped.append(d.id)        # empty-matching definitions are rejected for another reason (C03)
            continue
        depth = product_depth(tables)
        N = min(depth, NCAP)
        sat, w, tied, si = tie_query(tables, N)
        tot_q += si.queries
        tot_s += si.solver_s
        amb = v['status'] == 'rejected' and is_ambiguity(v['errors'])
        other_reject = v['status'] == 'rejected' and not amb
        case = {'def': d.id, 'patterns': [t.name for t in tables], 'priorities': [t.prio for t in tables], 'bound': N,
                'product_states': depth, 'tie_witness': w.decode('utf8', 'replace') if w is not None else None,
                'tied': tied, 'derive': v['status'], 'ambiguity_diag': amb}
        cases.append(case)
        if sat:
            nontrivial += 1
        if other_reject:
            case['note'] = 'rejected for another reason: ' + v['errors'][0][:80]
            continue
        if sat and not amb:
            # independent confirmation of the witness with the PikeVM oracle
            orc = ref.run_refdfa(pipeline.tool('refdfa'), dict(req, input=list(w), start=0), mode='oracle')
            full = [t.name for t, o in zip(tables, orc) if o.get('ok') and len(w) in o['ends']]
            info = {'property': 'C08', 'def': d.id, 'witness_hex': w.hex(), 'tied': tied, 'oracle_full_matches': full,
                    'derive': v, 'source': corpus.render_enum(d)}
            if set(tied) <= set(full):
                rc = max(rc, known_or_violation('C08', {'definition': d.id, 'what': 'accepted-tie'},
                                                f'{d.id}: derive accepts although {tied} (equal top priority) both match {w!r}',
                                                info, ev, 'tie-' + d.id))
            else:
                log(f'ENGINE: C08 witness for {d.id} not confirmed by the PikeVM oracle: {w!r} {tied} vs {full}')
                rc = max(rc, 2)
        elif not sat and amb:
            if N >= depth:
                info = {'property': 'C08', 'def': d.id, 'derive': v, 'bound': N, 'product_states': depth,
                        'source': corpus.render_enum(d)}
                rc = max(rc, known_or_violation('C08', {'definition': d.id, 'what': 'spurious-ambiguity'},
                                                f'{d.id}: derive reports an ambiguity but no string (any length: bound {N} >= product depth '
                                                f'{depth}) is matched by two top-priority patterns', info, ev, 'spur-' + d.id))
            else:
                case['note'] = f'inconclusive: no tie within {N} bytes, product depth {depth}'
        elif sat and amb:
            # the tied set of the witness must be named by the diagnostics
            lits = [corpus.rust_lit(p.lit) for p, _, _ in d.patterns()]
            named = [any(l in e for e in v['errors']) for l in lits]
            tied_idx = [i for i, t in enumerate(tables) if t.name in tied]
            if not all(named[i] for i in tied_idx):
                info = {'property': 'C08', 'def': d.id, 'derive': v, 'tied': tied}
                rc = max(rc, known_or_violation('C08', {'definition': d.id, 'what': 'diag-missing-pattern'},
                                                f'{d.id}: ambiguity diagnostic does not name all of {tied}', info, ev, 'diag-' + d.id))
    ev.coverage = {
        'explanation': 'per definition z3 decides over the reference DFA terms (one-hot unrolling, symbolic bytes/len) whether some string '
                       'of at most N bytes is fully matched by two patterns sharing the top priority among those matching it; N is the '
                       'number of reachable product states when that is <= the cap (then unsat means no tie at any length). The verdict of '
                       'the real logos_codegen::generate must be "ambiguity error" exactly for the sat cases; witnesses are re-checked '
                       'with regex-automata\'s PikeVM.',
        'evaluations': len(cases), 'distinct_nontrivial': nontrivial,
        'rule': 'one case = one definition; non-trivial = a tie witness exists',
        'samples': cases[:12], 'cases': cases, 'obligations': len(cases), 'discharged': len(cases),
        'queries_discharged': tot_q, 'solver_s': round(tot_s, 2), 'checker_cmd': f'./check C08 --tier {tier}',
        'trusted_base': ['regex-syntax/regex-automata (reference DFAs, PikeVM)', 'z3'], 'skipped': skipped,
        'bounds': {'N_cap': NCAP, 'outside': 'definitions outside the families; ties only reachable beyond the cap are reported inconclusive'},
        'functions_encoded': ['logos_codegen::generate (verdict only; Graph::get_state_type is not symbolically executed)'],
    }
    ev.assumptions = ['the language of a pattern is that of regex-syntax/regex-automata 0.8.5/0.4.9',
                      'default priorities per the documented rule (C09 decides them)']
    ev.write()
    log(f'C08 {tier}: {len(cases)} definitions, {nontrivial} with tie witnesses, {tot_q} queries, rc={rc}')
    return rc


# ----------------------------------------------------------------------------- C09
def c09_shapes():
    S = [
        ('alt_opt', R('(foo|hello)(bar)?')), ('class_plus', R('[a-zA-Z]+')), ('tok6', T('foobar')), ('rep3', R('(ab){3}')),
        ('rep_range', R('a{2,5}')), ('star_then', R('x*y')), ('alt_plus', R('(a|bc)+')), ('two_classes', R('[0-9][a-f]')),
        ('uni_regex', R('é')), ('uni_tok', T('é')), ('uni_tok3', T('日本')), ('icase_inline', R('(?i)ab')),
        ('look_end', R('ab$')), ('alt_min', R('abc|d')), ('alt_concat', R('(abc|de)f')), ('dot', R('a.')),
        ('nested_alt', R('((a|bb)|ccc)d')), ('rep_zero', R('(abc)*d')), ('rep_min2', R('(ab|c){2,}')), ('tok_meta', T('a+b')),
        ('ic_tok', T('ab', ignore_case=True)), ('ic_regex', R('ab', ignore_case=True)), ('cls_lit', R('[a]bc')),
        ('opt_group', R('a(bc)?d')), ('lazy', R('a+?b')),
        ('alt_zero_first', R('(?:_*|r#)[a-z]+')), ('alt_zero_mid', R('(?:xyz|[0-9]*|pq)[a-z]')), ('alt_zero_last', R('(?:r#|_*)[a-z]')),
        ('alt_opt_first', R('(x?|yz)w')), ('alt_look', R(r'x(?-u:\b|yz)w|qqq')), ('alt_empty', R('(|ab)cd')), ('alt_rep0', R('(ab){0,2}c|dd')),
        # ignore(case) literals whose escaped form is longer than the literal (metacharacters, bytes >= 0x80)
        ('ic_tok_meta', T('a+b', ignore_case=True)), ('ic_tok_meta2', T('x.[y]', ignore_case=True)),
    ]
    B = [
        ('b_tok', T(b'\xC3\xA9')), ('b_regex_utf8', R(b'\xC3\xA9')), ('b_regex_raw', R(b'\xFF\xFE')), ('b_class', R(b'[\x80-\xFF]a')),
        ('b_tok_raw', T(b'\xFF\x00a')), ('b_ic_tok_hi', T(b'\xC3\xA9k', ignore_case=True)), ('b_ic_tok_meta', T(b'a|\xFF', ignore_case=True)),
    ]
    return S, B


def competitor(p):
    """a regex with the same language as p (used as the explicit-priority probe)"""
    if p.kind == 'token':
        return Pat('regex', corpus.escaped_literal_regex(p.lit) if not isinstance(p.lit, bytes)
                   else corpus.escaped_literal_regex(p.lit).encode('ascii'), ignore_case=p.ignore_case)
    return Pat('regex', p.lit, ignore_case=p.ignore_case)


def c09_defs():
    S, B = c09_shapes()
    out = []
    for name, p, utf8 in [(n, p, True) for n, p in S] + [(n, p, False) for n, p in B]:
        out.append((name, p, utf8))
    return out


def c09(tier, seed):
    from .props import known_or_violation, log, lex_family, tier_params
    ev = report.Evidence('C09', tier, seed, 'other')
    shapes = c09_defs()
    if tier == 'quick':
        keep = {'alt_zero_first', 'alt_zero_mid', 'alt_opt_first', 'alt_empty', 'ic_tok_meta', 'ic_tok_meta2'}
        shapes = shapes[:14] + [x for x in shapes[14:-4] if x[0] in keep] + shapes[-4:]
    # documented default priority from the independent implementation (refdfa facts) / 2 x byte length
    probes = []
    meta = {}
    for name, p, utf8 in shapes:
        d0 = Def('p_' + name, utf8=utf8, variants=[Var('P', [p])])
        tables, recs, req = pipeline.reference_tables(d0)
        if tables is None:
            continue
        dflt = tables[0].prio
        meta[name] = dflt
        for delta in (-1, 0, 1):
            k = dflt + delta
            if k < 0:
                continue
            q = competitor(p)
            q.prio = k
            dd = Def(f'p9_{name}_{"m" if delta < 0 else ("e" if delta == 0 else "p")}', utf8=utf8,
                     variants=[Var('P', [copy.deepcopy(p)]), Var('Q', [q])], tags=('prio9',))
            probes.append((name, delta, dd))
    verdicts = pipeline.derive_verdicts([d for _, _, d in probes])
    rc = 0
    cases = []
    accepted = []
    for name, delta, dd in probes:
        v = verdicts[dd.id]
        amb = v['status'] == 'rejected' and is_ambiguity(v['errors'])
        case = {'shape': name, 'pattern': corpus.rust_lit(dd.variants[0].pats[0].lit), 'kind': dd.variants[0].pats[0].kind,
                'documented_default': meta[name], 'probe_priority': meta[name] + delta, 'derive': v['status'], 'ambiguity': amb}
        cases.append(case)
        if v['status'] == 'rejected' and not amb:
            # rejected for a reason that has nothing to do with priorities (e.g. no universal start state):
            # the shape cannot probe the default priority
            case['note'] = 'unusable shape: ' + (v['errors'][0][:80] if v['errors'] else '')
            continue
        if delta == 0:
            if not amb:
                info = {'property': 'C09', 'case': case, 'derive': v, 'source': corpus.render_enum(dd)}
                rc = max(rc, known_or_violation('C09', {'shape': name, 'what': 'no-tie-at-documented-default'},
                                                f'{name}: a same-language competitor with explicit priority {meta[name]} (the documented '
                                                f'default) is not reported as ambiguous: the derive\'s default differs', info, ev,
                                                f'{name}-e'))
        else:
            if v['status'] != 'accepted':
                info = {'property': 'C09', 'case': case, 'derive': v, 'source': corpus.render_enum(dd)}
                rc = max(rc, known_or_violation('C09', {'shape': name, 'what': 'tie-off-default'},
                                                f'{name}: competitor with priority {meta[name] + delta} rejected ({v["errors"][:1]}); '
                                                f'documented default is {meta[name]}', info, ev, f'{name}-{delta}'))
            else:
                accepted.append(dd)
    # behavioural half: on the accepted probes the generated lexers must pick the winner the documented numbers dictate
    corpus_defs._extra_defs = accepted
    tp = tier_params(tier)
    tp['starts'] = (0,)
    tp['cfgs'] = ['tc-unsafe'] if tier == 'quick' else ['tc-unsafe', 'sm-safe']
    ev2 = {}
    lits = literal_vs_regex(tier, seed)
    rc = max(rc, lits['rc'])
    # the accepted literal-vs-regex definitions go through the lexing obligations too: the literal must win its own text
    # in the generated code, not only in the priority numbers
    # (not the \\p{L} pair: its automaton has hundreds of states and takes minutes for nothing the shapes do not cover)
    accepted = accepted + [d for d in lits['defs'] if not any('\\p{' in str(p.lit) for v in d.variants for p in v.pats)]
    corpus_defs._extra_defs = accepted
    rc2 = lex_family('C09', tier, seed, relevant={'C01'}, select=lambda ds: accepted, name='lex', evidence_hook=ev2, **tp)
    rc = max(rc, rc2)
    # merge evidence (lex_family wrote the file; extend it)
    cov = ev2.get('coverage', {})
    cov['verdict_cases'] = cases
    cov['literal_vs_regex'] = lits['cases']
    cov['explanation'] = ('for every pattern shape the documented default priority d (independent implementation of the documented rule) '
                          'is probed with a same-language competitor of explicit priority d-1, d, d+1: the real derive must report an '
                          'ambiguity exactly at d, and on the accepted probes the exported MIR of the generated lexer must choose the '
                          'winner the documented numbers dictate (solver-decided C01 obligation over all inputs <= N bytes); plus '
                          'literal-vs-regex pairs: the literal wins on its own text or the derive reports an ambiguity. ' + cov.get(
        'explanation', ''))
    ev.coverage = cov
    ev.coverage.setdefault('evaluations', len(cases))
    ev.coverage.setdefault('distinct_nontrivial', len(cases))
    ev.assumptions = ['documented rule as stated in the property text', 'patterns of the shape family']
    ev.level = 'translation_validation' if cov.get('programs') else 'other'
    ev.violations = 0 if rc == 0 else ev.violations
    ev.write()
    log(f'C09 {tier}: {len(cases)} probes over {len(meta)} shapes, rc={rc}')
    return rc


def literal_vs_regex(tier, seed):
    """a literal token is never beaten on its own text by a default-priority regex"""
    from .props import known_or_violation
    pairs = [('fast', '[a-z]+'), ('if', '[a-z][a-z0-9]*'), ('==', '=+'), ('a.b', 'a.b'), ('é', '\\p{L}'), ('ab', 'a[b-c]'),
             ('abc', '(abc)+'), ('x', 'x|y'), ('10', '[0-9]{2}'), ('ab', '(?i)ab'), ('aa', 'a{2}'), ('a', '[a]'),
             # classes rendered as compare chains with holes next to the literal's bytes
             ('function', '[\\x00-\\x7F]+'), ('#include', '#[^\\n]*'), ('if', '[^ ]+'), ('a.b', '[^.]+\\.[^.]+'),
             ('fn', '[\\x00-\\x7F]+'), ('#if', '#[\\x00-\\x09\\x0B-\\x7F]*'), ('let', '[\\x21-\\x7F]+')]
    defs = [Def(f'lvr{i}', variants=[Var('Lit', [T(l)]), Var('Re', [R(r)])]) for i, (l, r) in enumerate(pairs)]
    verdicts = pipeline.derive_verdicts(defs)
    cases = []
    rc = 0
    for d, (l, r) in zip(defs, pairs):
        v = verdicts[d.id]
        tables, recs, req = pipeline.reference_tables(d)
        data = list(l.encode('utf8'))
        both = tables is not None and all(t.matches(data, 0, len(data)) for t in tables)
        case = {'literal': l, 'regex': r, 'derive': v['status'], 'regex_matches_literal': both}
        if tables is not None:
            case['priorities'] = [t.prio for t in tables]
        cases.append(case)
        if v['status'] == 'accepted' and both and tables[1].prio >= tables[0].prio:
            rc = max(rc, 1)
            known_or_violation('C09', {'what': 'literal-beaten', 'literal': l},
                               f'literal {l!r} (priority {tables[0].prio}) is not stronger than regex {r!r} ({tables[1].prio}) yet accepted',
                               {'property': 'C09', 'case': case}, report.Evidence('C09', tier, seed, 'other'), 'lvr-' + d.id)
    # three patterns in every declaration order: the literal, a regex of the same default priority matching the literal's
    # text, and a weaker regex matching it too (tie detection must not depend on which leaves are adjacent)
    triples = [('ab', '[a-f][0-9a-f]', '[a-z]+'), ('if', 'i[a-z]', '[a-z]+'), ('==', '=[=!]', '=+'), ('10', '[0-9]{2}', '[0-9a-f]+')]
    tdefs = []
    for ti, (l, r, w) in enumerate(triples):
        items = [('Lit', T(l)), ('Re', R(r)), ('Weak', R(w))]
        for pi, perm in enumerate(itertools.permutations(range(3))):
            tdefs.append((l, r, Def(f'lvr3_{ti}_{pi}', variants=[Var(items[k][0], [copy.deepcopy(items[k][1])]) for k in perm])))
    tverd = pipeline.derive_verdicts([d for _, _, d in tdefs])
    for l, r, d in tdefs:
        v = tverd[d.id]
        tables, recs, req = pipeline.reference_tables(d)
        data = list(l.encode('utf8'))
        if tables is None:
            continue
        byname = {var.name: t for var, t in zip(d.variants, tables)}
        lit, others = byname['Lit'], [t for n, t in byname.items() if n != 'Lit']
        beaten = [t for t in others if t.matches(data, 0, len(data)) and t.prio >= lit.prio]
        case = {'literal': l, 'order': [var.name for var in d.variants], 'derive': v['status'],
                'priorities': {n: t.prio for n, t in byname.items()}}
        cases.append(case)
        if v['status'] == 'accepted' and beaten:
            rc = max(rc, 1)
            known_or_violation('C09', {'what': 'literal-beaten', 'literal': l},
                               f'literal {l!r} (priority {lit.prio}) in declaration order {case["order"]}: a regex of priority '
                               f'{beaten[0].prio} matches its text, yet the definition is accepted',
                               {'property': 'C09', 'case': case, 'source': corpus.render_enum(d)},
                               report.Evidence('C09', tier, seed, 'other'), 'lvr-' + d.id)
    return {'rc': rc, 'cases': cases, 'defs': [d for d in defs if verdicts[d.id]['status'] == 'accepted']}


# ----------------------------------------------------------------------------- C18
NAMED = {'priority': 'priority = 7', 'ignore': 'ignore(case)', 'allow_greedy': 'allow_greedy = true', 'callback': 'callback = cb',
         'callback_lt': 'callback = |lex| lex.slice().len() < 4', 'callback_shift': 'callback = |lex| 1u8 << 2 > 3'}


def c18_cases():
    """(id, canonical attribute source, [permuted sources]) as full enum sources"""
    cases = []

    def enum(attrs_top, variant_attr):
        top = ''.join(f'#[logos({a})]\n' for a in attrs_top)
        return f'{top}enum Tok {{ {variant_attr} A, #[token("zz")] Z }}'
    # #[token]/#[regex] named arguments in every order (with and without the positional callback)
    for kind, lit in (('regex', '"[a-c]+x"'), ('token', '"ab"')):
        names = ['priority', 'ignore', 'allow_greedy'] if kind == 'regex' else ['priority', 'ignore']
        for with_cb in (False, True, 'named'):
            ns = list(names) + (['callback'] if with_cb == 'named' else [])
            for r in range(1, len(ns) + 1):
                for subset in itertools.combinations(ns, r):
                    perms = list(itertools.permutations(subset))
                    if len(perms) < 2 and not (len(subset) == 1 and subset[0] == 'ignore'):
                        pass
                    head = lit + (', cb' if with_cb is True else '')
                    srcs = [enum([], f'#[{kind}({head}, {", ".join(NAMED[n] for n in perm)})]') for perm in perms]
                    cases.append((f'{kind}-{"cb" if with_cb is True else ("ncb" if with_cb else "nocb")}-{"+".join(subset)}', srcs))
    # positional callback given as a path (an unnamed nested item that starts with an identifier followed by `::`)
    for kind, lit in (('regex', '"[a-c]+x"'), ('token', '"ab"')):
        for subset in [('priority', 'ignore'), ('priority',), ('ignore',)]:
            perms = list(itertools.permutations(subset))
            cases.append((f'{kind}-pathcb-{"+".join(subset)}',
                          [enum([], f'#[{kind}({lit}, cbs::cb, {", ".join(NAMED[n] for n in perm)})]') for perm in perms] +
                          [enum([], f'#[{kind}({lit}, {", ".join(NAMED[n] for n in perm)}, callback = cbs::cb)]') for perm in perms]))
    # values containing bare comparison / shift operators (must not swallow the following arguments)
    for kind, lit in (('regex', '"[a-c]+x"'), ('token', '"ab"')):
        for cbn in ('callback_lt', 'callback_shift'):
            for subset in [(cbn, 'priority'), (cbn, 'priority', 'ignore')]:
                perms = list(itertools.permutations(subset))
                cases.append((f'{kind}-{cbn}-{"+".join(subset[1:])}',
                              [enum([], f'#[{kind}({lit}, {", ".join(NAMED[n] for n in perm)})]') for perm in perms]))
    # skip(...) arguments
    for subset in [('priority', 'ignore'), ('priority', 'allow_greedy'), ('priority', 'ignore', 'allow_greedy'), ('callback', 'priority')]:
        perms = list(itertools.permutations(subset))
        srcs = [enum([f'skip("[ ]+x?", {", ".join(NAMED[n] for n in perm)})'], '#[regex("[a-c]+")]') for perm in perms]
        cases.append((f'skip-{"+".join(subset)}', srcs))
    # items of one combined #[logos(...)] attribute, every dependency-respecting order (rendered from a Def so that
    # representatives can be pushed through the solver-decided lexing obligations)
    base = ord_items_def()
    n_items = 6
    srcs = []
    for perm in itertools.permutations(range(n_items)):
        if perm.index(2) > perm.index(3):       # subpattern d before dd
            continue
        dd = copy.copy(base)
        dd.logos_items_order = list(perm)
        srcs.append(corpus.render_enum(dd, derive_line=''))
    cases.append(('logos-items', srcs))
    srcs2 = []
    for perm in itertools.permutations(range(3)):
        dd = ord_skips_def(list(perm))
        srcs2.append(corpus.render_enum(dd, derive_line=''))
    cases.append(('logos-skips', srcs2))
    # the same literal skipped twice with different priorities, and with equal priorities (a tie in every order)
    for nm, fac in SKIP_CLASSES.items():
        if nm != 'logos-skips':
            cases.append((nm, [corpus.render_enum(fac(list(perm)), derive_line='') for perm in itertools.permutations(range(3))]))
    # generic enum: type substitution and source lifetime in either order
    gitems = ["lifetime = 'a", "type T = &'a str", 'extras = u8', 'skip " +"']
    cases.append(('logos-items-generic', [
        f'#[logos({", ".join(p)})]\nenum Tok<\'a, T> {{ #[regex("[a-z]+", |lex| lex.slice())] W(T), #[token("zz")] Z(&\'a str) }}'
        for p in itertools.permutations(gitems)]))
    items2 = ['skip(" +", priority = 3)', 'utf8 = false', 'extras = u8', 'crate = logos']
    cases.append(('logos-items-group-first', [f'#[logos({", ".join(p)})]\nenum Tok {{ #[token("zz")] Z }}'
                                              for p in itertools.permutations(items2)]))
    # subpatterns whose acceptance depends on the lexer's mode, in every position relative to `utf8 = ...`
    items3 = ['utf8 = false', 'subpattern hi = b"[\\x80-\\xFF]"', 'subpattern two = b"(?&hi)(?&hi)"', 'skip(b"\\xFE+")', 'extras = u8']
    cases.append(('logos-items-bytes-sub', [
        f'#[logos({", ".join(p)})]\nenum Tok {{ #[regex(b"x(?&two)")] A, #[regex("(?&hi)")] H, #[token("zz")] Z }}'
        for p in itertools.permutations(items3) if p.index(items3[1]) < p.index(items3[2])]))
    items4 = ['utf8 = true', 'subpattern hi = b"[\\x80-\\xFF]"', 'extras = u8']
    cases.append(('logos-items-str-badsub', [f'#[logos({", ".join(p)})]\nenum Tok {{ #[regex("x(?&hi)")] A, #[token("zz")] Z }}'
                                             for p in itertools.permutations(items4)]))
    items5 = ['utf8 = false', 'subpattern any = "."', 'subpattern nl = b"[^\\n]"', 'skip("(?&any) ")']
    cases.append(('logos-items-mode-sub', [f'#[logos({", ".join(p)})]\nenum Tok {{ #[regex(b"<(?&nl)>")] A, #[token("zz")] Z }}'
                                           for p in itertools.permutations(items5)
                                           if p.index(items5[1]) < p.index(items5[3])]))
    return cases


def compile_representatives(name, srcs, rs, summ):
    """cargo-check one representative per distinct generated code; returns a marker (and sets .last) when some order
    compiles and another does not"""
    import os
    import subprocess
    from . import build
    reps = {}
    for k, x in enumerate(rs):
        reps.setdefault(x['code_hash'], srcs[k])
    results = []
    for i, (h, src) in enumerate(reps.items()):
        cdir = os.path.join(build.WORK, 'native', f'c18-{hashlib.sha1(name.encode()).hexdigest()[:6]}-{i}')
        os.makedirs(os.path.join(cdir, 'src'), exist_ok=True)
        build.write_if_changed(os.path.join(cdir, 'Cargo.toml'), f'[package]\nname = "c18rep"\nversion = "0.0.0"\nedition = "2021"\n'
                               f'[dependencies]\nlogos = {{ path = "{build.REPO}" }}\n[workspace]\n')
        lock = os.path.join(build.REPO, 'Cargo.lock')
        if os.path.exists(lock) and not os.path.exists(os.path.join(cdir, 'Cargo.lock')):
            build.write_if_changed(os.path.join(cdir, 'Cargo.lock'), open(lock).read())
        with open(os.path.join(cdir, 'src', 'lib.rs'), 'w') as f:
            f.write('#![allow(dead_code)]\nuse logos::Logos;\n#[derive(Debug, PartialEq, Clone, Default)]\npub struct E;\n'
                    '#[derive(Logos, Debug, PartialEq)]\n' + src + '\n')
        env = dict(build.ENV_BASE, CARGO_TARGET_DIR=os.path.join(build.WORK, 'target-native', 'c18rep'), RUSTFLAGS='-Awarnings')
        rcx, log = build.run(['cargo', 'check', '--offline'], cwd=cdir, env=env)
        errs = [l for l in log.splitlines() if l.startswith('error')]
        results.append((rcx == 0, src, errs[0] if errs else ''))
    summ['representatives_compiled'] = [r[0] for r in results]
    compile_representatives.last = None
    oks = [r for r in results if r[0]]
    bads = [r for r in results if not r[0]]
    if oks and bads:
        compile_representatives.last = (oks[0][1], bads[0][1], bads[0][2])
        return True
    if not bads:
        summ['note'] = 'all representatives compile although the generated code differs between orders'
    return None


compile_representatives.last = None


def ord_skips_def(order=None, ident='ord_skips'):
    """overlapping callback-less skips of different priority with a token in between"""
    return Def(ident, skips=[R('//[a-z/]*', prio=4), R('////[a-z/]*', prio=8), R(' +')],
               variants=[Var('Doc', [R('///[a-z/]*', prio=6)]), Var('Z', [T('zz')])], combined_logos_attr=True, logos_items_order=order)


def ord_skips_dup_def(order=None, ident='ord_skips_dup'):
    """one literal skipped twice with different priorities; the token pattern sits between the two"""
    return Def(ident, skips=[T('-', prio=5), T('-'), R(' +')], variants=[Var('Ch', [R('[-a-z]', prio=3)])],
               combined_logos_attr=True, logos_items_order=order)


def ord_skips_tie_def(order=None, ident='ord_skips_tie'):
    """one literal skipped twice with the same priority: a tie whatever the order"""
    return Def(ident, skips=[T('a'), T('a'), T('b')], variants=[Var('Z', [T('zz')])], combined_logos_attr=True,
               logos_items_order=order, expect='reject')


SKIP_CLASSES = {'logos-skips': ord_skips_def, 'logos-skips-dup': ord_skips_dup_def, 'logos-skips-tie': ord_skips_tie_def}


def ord_items_def(order=None, ident='ord_items'):
    return Def(ident, utf8=False, error='E', prelude='#[derive(Debug, PartialEq, Clone, Default)]\npub struct E;',
               subs=[('d', '[0-9]'), ('dd', '(?&d)(?&d)')], skips=[R(' +'), R('#+', prio=3)],
               variants=[Var('A', [R('x(?&dd)')]), Var('Z', [T('zz')])], combined_logos_attr=True, logos_items_order=order)


def c18(tier, seed):
    from .props import known_or_violation, log
    ev = report.Evidence('C18', tier, seed, 'other')
    cases = c18_cases()
    if tier == 'quick':
        rnd = random.Random(seed)
        cases = [(n, s if len(s) <= 24 else rnd.sample(s, 24)) for n, s in cases]
    defs = []
    for ci, (name, srcs) in enumerate(cases):
        for k, s in enumerate(srcs):
            defs.append({'id': f'{ci}:{k}', 'src': s})
    import subprocess
    r = subprocess.run([pipeline.tool('verdict')], input=json.dumps({'defs': defs}), capture_output=True, text=True)
    if r.returncode != 0:
        print('ENGINE: verdict tool failed ' + r.stderr[-500:])
        return 2
    res = {x['id']: x for x in json.loads(r.stdout)['results']}
    rc = 0
    summary = []
    nperm = 0
    for ci, (name, srcs) in enumerate(cases):
        rs = [res[f'{ci}:{k}'] for k in range(len(srcs))]
        nperm += len(rs)
        statuses = {x['status'] for x in rs}
        hashes = {x.get('code_hash') for x in rs if x['status'] == 'accepted'}
        summary.append({'class': name, 'permutations': len(rs), 'statuses': sorted(statuses), 'distinct_outputs': len(hashes)})
        if len(statuses) > 1:
            acc = next(k for k, x in enumerate(rs) if x['status'] == 'accepted') if 'accepted' in statuses else None
            rej = next(k for k, x in enumerate(rs) if x['status'] != 'accepted')
            info = {'property': 'C18', 'class': name, 'accepted_order': srcs[acc] if acc is not None else None,
                    'rejected_order': srcs[rej], 'errors': rs[rej]['errors']}
            role = {'class': name.split('-')[0], 'what': 'order-dependent-acceptance', 'error': rs[rej]['errors'][0][:40] if rs[rej]['errors'] else ''}
            rc = max(rc, known_or_violation('C18', role, f'{name}: accepted in one argument order, rejected in another: '
                                            f'{srcs[rej].splitlines()[0][:120]} -> {rs[rej]["errors"][:1]}', info, ev,
                                            'ord-' + hashlib.sha1(name.encode()).hexdigest()[:8]))
        elif statuses == {'accepted'} and name in SKIP_CLASSES:
            # overlapping skips: every order must give an equivalent lexer -> all orders go through the lexing obligations
            rep_defs = [SKIP_CLASSES[name](list(p), f'ord_{name.split("-", 1)[1].replace("-", "_")}_{i}')
                        for i, p in enumerate(itertools.permutations(range(3)))]
            from .props import lex_family, tier_params
            tp = tier_params(tier)
            tp['cfgs'] = ['tc-unsafe']
            tp['starts'] = (0,)
            hook = {}
            rc = max(rc, lex_family('C18', tier, seed, relevant={'C01', 'C02', 'C03'}, select=lambda ds: rep_defs, name='lex' + name.split('-', 1)[1].replace('-', ''),
                                    evidence_hook=hook, **tp))
            summary[-1]['orders_checked_by_solver'] = len(rep_defs)
        elif statuses == {'accepted'} and len(hashes) > 1 and name == 'logos-items':
            # the order of skip items renumbers the leaves: decide equivalence with the lexing obligations on one
            # representative per distinct generated code
            reps = {}
            perms = [p for p in itertools.permutations(range(6)) if p.index(2) < p.index(3)]
            if len(perms) == len(srcs):
                for k, x in enumerate(rs):
                    reps.setdefault(x['code_hash'], perms[k])
            else:
                for k, x in enumerate(rs):
                    reps.setdefault(x['code_hash'], next(p for p in perms if corpus.render_enum(
                        ord_items_def(list(p)), derive_line='') == srcs[k]))
            rep_defs = [ord_items_def(list(p), f'ord_items_{i}') for i, p in enumerate(reps.values())]
            from .props import lex_family, tier_params
            tp = tier_params(tier)
            tp['cfgs'] = ['tc-unsafe']
            hook = {}
            rc = max(rc, lex_family('C18', tier, seed, relevant={'C01', 'C02', 'C03'}, select=lambda ds: rep_defs, name='lex',
                                    evidence_hook=hook, **tp))
            summary[-1]['representatives_checked_by_solver'] = len(rep_defs)
            summary[-1]['solver'] = {k: hook.get('coverage', {}).get(k) for k in ('evaluations', 'queries_discharged', 'solver_s')}
        elif statuses == {'accepted'} and len(hashes) > 1 and compile_representatives(name, srcs, rs, summary[-1]) is not None:
            # the generated code depends on the order: compile one representative per distinct output with rustc
            ok_src, bad_src, err = compile_representatives.last
            info = {'property': 'C18', 'class': name, 'compiles': ok_src, 'fails_to_compile': bad_src, 'rustc_error': err}
            rc = max(rc, known_or_violation('C18', {'class': name, 'what': 'order-dependent-compile-error'},
                                            f'{name}: one item order compiles, another does not: {bad_src.splitlines()[0][:110]} -> {err[:120]}',
                                            info, ev, 'rustc-' + hashlib.sha1(name.encode()).hexdigest()[:8]))
        elif statuses == {'accepted'} and len(hashes) > 1:
            # outputs differ textually: equivalence would need the C01 obligation; report for inspection
            info = {'property': 'C18', 'class': name, 'note': 'generated code differs between argument orders',
                    'orders': srcs[:4]}
            rc = max(rc, known_or_violation('C18', {'class': name, 'what': 'different-code'},
                                            f'{name}: argument order changes the generated lexer', info, ev, 'code-' + name[:20]))
        elif statuses != {'accepted'}:
            summary[-1]['note'] = 'rejected in every order: ' + (rs[0]['errors'][0][:80] if rs[0]['errors'] else '')
    ev.coverage = {
        'explanation': 'the finite space of argument orders is enumerated completely (every permutation of every subset of the named '
                       'arguments of #[token]/#[regex]/skip(...), every dependency-respecting order of the items of a combined #[logos(...)]); '
                       'the real logos_codegen::generate must give the same verdict for every member of a class and byte-identical generated '
                       'code (then the lexers are equal and inherit the canonical order\'s solver-decided C01 obligations). The attribute '
                       'tokenizer itself (proc_macro2 iterators) is not executed symbolically - stated limitation.',
        'evaluations': nperm, 'distinct_nontrivial': len(cases), 'rule': 'one case = one argument order; classes = sets of orders that must agree',
        'samples': summary[:10], 'classes': summary, 'exhaustive': tier != 'quick',
        'checker_cmd': f'./check C18 --tier {tier}', 'obligations': len(cases), 'discharged': len(cases),
        'trusted_base': ['proc_macro2 token printing for the identity comparison'],
    }
    ev.assumptions = ['classes listed in c18_cases(); callbacks referenced by name only']
    ev.write()
    log(f'C18 {tier}: {nperm} argument orders in {len(cases)} classes, rc={rc}')
    return rc


# ----------------------------------------------------------------------------- acceptance halves (C03, C04, C11)
def acceptance_empty(prop, P, defs, ev):
    """no definition in which some pattern can match the empty string is accepted (and the corpus' empty-matching
    definitions are rejected for that reason)"""
    from .props import known_or_violation
    rc = 0
    cases = []
    for d in defs:
        recs, req = P.refrecs[d.id]
        empties = [i for i, r in enumerate(recs) if r.get('ok') and (r['facts'].get('min_len') == 0 or r.get('dfa', {}).get('has_empty'))]
        # solver side: the start state of the reference DFA accepts on EOI / on any first byte (delayed match)
        v = P.verdicts[d.id]
        cases.append({'def': d.id, 'empty_matching_patterns': empties, 'derive': v['status']})
        if empties and v['status'] == 'accepted':
            rc = max(rc, known_or_violation(prop, {'definition': d.id, 'what': 'empty-accepted'},
                                            f'{d.id}: pattern #{empties[0]} matches the empty string but the derive accepts',
                                            {'property': prop, 'def': d.id, 'source': corpus.render_enum(d)}, ev, 'empty-' + d.id))
        if d.expect == 'reject' and 'empty' in d.tags and not empties:
            print(f'ENGINE: corpus definition {d.id} is tagged empty-matching but the reference disagrees', flush=True)
            rc = max(rc, 2)
    return rc, {'empty_match_cases': cases}


def acceptance_utf8(prop, P, defs, ev):
    """a str-mode definition is accepted only if no pattern can match invalid UTF-8: z3 query over the reference terms"""
    from . import lexcheck
    from .props import known_or_violation
    rc = 0
    cases = []
    N = 6
    for d in defs:
        if not d.utf8:
            continue
        tables = P.tables[d.id]
        if tables is None:
            continue
        v = P.verdicts[d.id]
        si = SymInput(N)
        R_ = ref.Reference(si, tables)
        invalid = s_not(lexcheck.valid_utf8(si))
        wit = None
        which = None
        for pi in range(len(tables)):
            alts = [s_and(simp(si.len == bvv(j, U)), R_.M(pi, 0, j)) for j in range(1, N + 1)]
            sat, w = si.sat(s_and(s_or(*alts), invalid))
            if sat:
                wit, which = w, pi
                break
        wname = tables[which].name if wit else None
        if wit is None and d.subs:
            # "... none of its patterns *or subpatterns*": every subpattern (earlier ones inlined, its own Unicode mode) as a
            # pattern of its own
            try:
                resolved = corpus.resolve_subpatterns(d)
            except KeyError:
                resolved = {}
            if resolved:
                d0 = Def('subs_of_' + d.id, utf8=False, variants=[Var(f'S{k}', [R(txt)]) for k, txt in enumerate(resolved.values())])
                try:
                    stables, _, _ = pipeline.reference_tables(d0)
                except Exception:       # noqa
                    stables = None
                if stables:
                    si2 = SymInput(N)
                    R2 = ref.Reference(si2, stables)
                    inv2 = s_not(lexcheck.valid_utf8(si2))
                    for pi, nm in enumerate(resolved):
                        alts = [s_and(simp(si2.len == bvv(j, U)), R2.M(pi, 0, j)) for j in range(1, N + 1)]
                        sat, w = si2.sat(s_and(s_or(*alts), inv2))
                        if sat:
                            wit, wname = w, f'subpattern {nm}'
                            break
        msg_utf8 = any('can match invalid UTF-8' in e for e in v['errors'])
        tables_which_name = wname
        cases.append({'def': d.id, 'non_utf8_witness': wit.hex() if wit else None, 'pattern': tables_which_name,
                      'derive': v['status'], 'utf8_diag': msg_utf8})
        if wit is not None and v['status'] == 'accepted':
            rc = max(rc, known_or_violation(prop, {'definition': d.id, 'what': 'nonutf8-accepted'},
                                            f'{d.id}: {wname} matches the invalid UTF-8 string {wit.hex()} but the str-mode '
                                            f'definition is accepted', {'property': prop, 'def': d.id, 'witness_hex': wit.hex(),
                                                                       'source': corpus.render_enum(d)}, ev, 'nonutf8-' + d.id))
        if wit is None and msg_utf8:
            depth = product_depth(tables)
            if N >= depth:
                rc = max(rc, known_or_violation(prop, {'definition': d.id, 'what': 'spurious-utf8-rejection'},
                                                f'{d.id}: rejected as non-UTF-8 but no pattern matches invalid UTF-8 (bound {N} >= depth {depth})',
                                                {'property': prop, 'def': d.id, 'derive': v}, ev, 'spurutf8-' + d.id))
    return rc, {'utf8_acceptance_cases': cases, 'bound_bytes': N}


def acceptance_subpattern(prop, P, defs, ev):
    from .props import known_or_violation
    rc = 0
    cases = []
    for d in defs:
        recs, req = P.refrecs[d.id]
        undefined = [rq.get('undefined_subpattern') for rq in req['patterns'] if rq.get('undefined_subpattern')]
        v = P.verdicts[d.id]
        cases.append({'def': d.id, 'undefined_references': undefined, 'derive': v['status']})
        if undefined and v['status'] == 'accepted':
            rc = max(rc, known_or_violation(prop, {'definition': d.id, 'what': 'undefined-subpattern-accepted'},
                                            f'{d.id}: reference to undefined subpattern {undefined} accepted',
                                            {'property': prop, 'def': d.id, 'source': corpus.render_enum(d)}, ev, 'undef-' + d.id))
        if not undefined and d.expect == 'accept' and v['status'] != 'accepted':
            rc = max(rc, known_or_violation(prop, {'definition': d.id, 'what': 'subpattern-definition-rejected'},
                                            f'{d.id}: well-formed subpattern definition rejected: {v["errors"][:1]}',
                                            {'property': prop, 'def': d.id, 'derive': v, 'source': corpus.render_enum(d)}, ev, 'rej-' + d.id))
    return rc, {'subpattern_reference_cases': cases}
