"""./check <property id> [--tier quick|thorough]   (env: VERIF_TIER, VERIF_SEED)"""
import argparse
import os
import sys
import traceback


def main():
    ap = argparse.ArgumentParser()
    ap.add_argument('prop')
    ap.add_argument('--tier', default=os.environ.get('VERIF_TIER', 'quick'), choices=['quick', 'thorough'])
    ap.add_argument('--seed', type=int, default=int(os.environ.get('VERIF_SEED', '0') or 0))
    a = ap.parse_args()
    from . import build, props
    from .exec import EngineError
    fn = props.REGISTRY.get(a.prop)
    if fn is None:
        print(f'no check registered for {a.prop}')
        return 2
    try:
        build.ensure_fresh()
        rc = fn(a.tier, a.seed)
        if rc == 2 and props.VIOLATIONS_REPORTED[0] > 0:
            # a violation that was reproduced natively stands, whatever else stayed inconclusive in the same run (other
            # models that did not reproduce, tasks that ran out of budget): the VIOLATION lines above are the verdict
            print(f'note: {props.VIOLATIONS_REPORTED[0]} reproduced violation(s) reported; inconclusive parts of this run are listed above as ENGINE lines')
            return 1
        return rc
    except build.BuildError as e:
        print('ENGINE: build failed:\n' + str(e)[-4000:])
        return 2
    except EngineError as e:
        print('ENGINE: ' + str(e))
        return 2
    except Exception:
        traceback.print_exc()
        return 2


if __name__ == '__main__':
    sys.exit(main())
