"""Generates /verif/MANIFEST.json (python3-vt -m mirsym.manifest > MANIFEST.json)."""
import json

TECH = 'bounded symbolic execution of rustc MIR (real derive output + logos runtime) with z3; per-leaf unsat queries'

CHECKS = {
    'C01': ('translation_validation',
            'For every corpus definition and configuration the MIR of the code the real derive generated (plus the runtime) is '
            'executed symbolically for one next() from concrete start positions on symbolic input (bytes and length); on every '
            'leaf the solver refutes "span is not the longest reference match / variant is not a highest-priority match" against '
            'independently built single-pattern DFAs. All inputs up to N bytes are decided, not sampled; definitions are a corpus.',
            'regex-syntax/regex-automata single-pattern DFA construction (reference), core builtins listed in evidence.stubs, '
            'rustc MIR export; inputs <= N bytes; corpus of definitions', 'DESIGN.md#3 C01'),
    'C02': ('translation_validation',
            'Same exploration; on Err leaves the solver must refute any deviation from the documented span rule '
            '(start, end = boundary_up(max(first fatal byte, start+1))), and on every attempt that the bytes examined end '
            'exactly where no pattern can be extended any more.',
            'as C01; error values from callbacks are decided by C13', 'DESIGN.md#3 C02'),
    'C03': ('translation_validation',
            'Step obligations per leaf (non-empty, increasing, gap-free spans; skip gaps are reference skip matches; None only at '
            'the end and sticky; step budget never hit) give termination/progress/tiling by induction over positions; plus the '
            'derive must reject exactly the definitions whose reference DFA accepts the empty string.',
            'as C01; induction over positions is an argument, cross-checked by whole-stream runs in the thorough tier', 'DESIGN.md#3 C03'),
    'C04': ('translation_validation',
            'str-mode definitions on all valid UTF-8 inputs <= N bytes (1-4 byte characters): every span boundary is a char boundary, '
            'slice()/remainder() meet get_unchecked preconditions / never panic; acceptance side: z3 query over the reference tables '
            'for a non-UTF-8 match against the derive verdict.',
            'as C01', 'DESIGN.md#3 C04'),
    'C05': ('translation_validation',
            'Default (unsafe) build: every pointer load / reference formation into the source carries a solver-checked in-bounds '
            'obligation on every path, lengths 0..17 around the 8-byte batch; Source::read contract with a free 64-bit offset; '
            'forbid_unsafe build reaches no panic and satisfies the same reference (hence identical results).',
            'as C01; pointer provenance modelled as (allocation, offset, limit)', 'DESIGN.md#3 C05'),
    'C20': ('translation_validation',
            'From the executor\'s log of every LexerInternal::read call and byte load on every leaf: offsets never decrease within an '
            'attempt, nothing below the attempt start, examined bytes form a contiguous prefix, read count <= 3*(examined+1)+3.',
            'as C01', 'DESIGN.md#3 C20'),
}

NOT_APPLICABLE = [
    ('C16', 'determinism over HashMap iteration orders under random SipHash keys inside heap-heavy proc-macro code: neither the hash '
            'nor the containers are encodable for a bounded solver here; running the derive repeatedly would be sampling'),
    ('C17', 'logos-cli output is decided by syn/proc_macro2 token plumbing and file I/O; nothing of it can be executed symbolically'),
    ('C19', 'panic-freedom of the proc macro over arbitrary token streams inside rustc (Span::join etc.) has no symbolic encoding here'),
]


def build(claimed=None):
    checks = []
    for pid, (level, text, note, ref) in CHECKS.items():
        if claimed is not None and pid not in claimed:
            continue
        checks.append({
            'property_id': pid,
            'quick_cmd': f'./check {pid} --tier quick',
            'thorough_cmd': f'./check {pid} --tier thorough',
            'evidence_file': f'/verif/evidence/{pid}.json',
            'replay_cmd_template': './check-replay {path}',
            'engine': 'mirsym',
            'level_claimed': {'category': level, 'text': text, 'design_ref': ref},
            'level_note': note,
            'technique': TECH,
        })
    pending = [p for p in [f'C{i:02d}' for i in range(1, 21)] if p not in {c['property_id'] for c in checks}
               and p not in {n[0] for n in NOT_APPLICABLE}]
    na = [{'property_id': p, 'reason': r} for p, r in NOT_APPLICABLE]
    na += [{'property_id': p, 'reason': 'check not built yet (planned in DESIGN.md); not claimed in this revision'} for p in pending]
    return {
        'version': 1,
        'setup_cmd': './setup.sh',
        'hooks': {'guard': 'none', 'enable': 'no source hooks: the executor observes reads/spans/callbacks in the exported MIR',
                  'baseline_off_cmd': 'cd /repo && cargo test --workspace --no-fail-fast --offline', 'source_commits': [],
                  'add_only': True},
        'engines': [
            {'name': 'mirsym', 'path': '/verif/mirsym', 'serves_properties': sorted(CHECKS),
             'kind_free_text': 'path-wise symbolic executor for monomorphised rustc MIR (exported by tools/mirdump through '
                               'rustc_public) on z3, with reference DFAs from tools/refdfa and derive verdicts from tools/verdict'},
        ],
        'checks': checks,
        'not_applicable': na,
        'notes': 'exit 0 = held on everything explored, 1 = VIOLATION (replayed natively), 2 = inconclusive/engine error',
    }


if __name__ == '__main__':
    print(json.dumps(build(), indent=1))
