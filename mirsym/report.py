"""Evidence files, known findings, replay records, exit codes."""
import json
import os
import time

VERIF = os.path.dirname(os.path.dirname(os.path.abspath(__file__)))
KNOWN = os.path.join(VERIF, 'known_findings.json')


def load_known():
    try:
        with open(KNOWN) as f:
            return json.load(f)
    except FileNotFoundError:
        return {'findings': [], 'fixed': []}


def match_known(prop, role):
    """role: dict describing the failing site/condition; a known finding matches when every key of its
    `match` dict equals the role's value (so a different violation of the same property still reports)"""
    for k in load_known().get('findings', []):
        if k.get('property') != prop:
            continue
        m = k.get('match', {})
        if all(role.get(a) == b for a, b in m.items()):
            return k
    return None


def write_replay(prop, name, record):
    d = os.path.join(VERIF, 'replays', prop)
    os.makedirs(d, exist_ok=True)
    path = os.path.join(d, name + '.json')
    with open(path, 'w') as f:
        json.dump(record, f, indent=1, default=str)
    return path


class Evidence:
    def __init__(self, prop, tier, seed, level):
        self.prop, self.tier, self.seed, self.level = prop, tier, seed, level
        self.t0 = time.time()
        self.coverage = {}
        self.assumptions = []
        self.violations = 0

    def write(self):
        d = os.path.join(VERIF, 'evidence')
        os.makedirs(d, exist_ok=True)
        doc = {'property_id': self.prop, 'tier': self.tier, 'seed': self.seed, 'level': self.level,
               'coverage': self.coverage, 'assumptions': self.assumptions,
               'wall_s': round(time.time() - self.t0, 2), 'violations': self.violations}
        with open(os.path.join(d, self.prop + '.json'), 'w') as f:
            json.dump(doc, f, indent=1, default=str)
        return doc
