"""Shared pipeline: verdicts from the real derive back end, reference tables, MIR programs, worker pool."""
import hashlib
import json
import multiprocessing as mp
import os
import subprocess
import time
import traceback

from . import build, corpus, ref
from .exec import EngineError, Program

_tool_cache = {}


def tool(name, toolchain=None):
    if name not in _tool_cache:
        _tool_cache[name] = build.cargo_tool(name, toolchain)
    return _tool_cache[name]


def derive_verdicts(defs, state_machine=False):
    """run the real logos_codegen::generate on every definition -> {id: {status, errors}}"""
    req = {'defs': [{'id': d.id, 'src': corpus.render_enum(d, derive_line='')} for d in defs]}
    r = subprocess.run([tool('verdict')], input=json.dumps(req), capture_output=True, text=True)
    if r.returncode != 0:
        raise build.BuildError('verdict tool failed: ' + r.stderr[-3000:])
    out = {}
    for x in json.loads(r.stdout)['results']:
        out[x['id']] = x
    return out


def reference_tables(d):
    """-> (tables | None, records).  tables is None when some pattern has no usable reference DFA"""
    req = corpus.ref_request(d)
    recs = ref.run_refdfa(tool('refdfa'), req)
    tables = []
    ok = True
    for (p, outcome, vname), rec, rq in zip(d.patterns(), recs, req['patterns']):
        if not rec.get('ok') or 'dfa' not in rec or rec['dfa'].get('no_universal_start') or rq.get('undefined_subpattern'):
            ok = False
            tables.append(None)
            continue
        prio = corpus.documented_priority(p, rec['facts'])
        tb = ref.PatTable(rec, prio, outcome, f'{vname}:{p.kind}({corpus.rust_lit(p.lit)})')
        tb.cb_fn, tb.cb_kind = p.cb_fn, p.cb_kind
        tables.append(tb)
    return (tables if ok else None), recs, req


_prog_cache = {}


def load_program(path):
    p = _prog_cache.get(path)
    if p is None:
        p = _prog_cache[path] = Program(path)
    return p


def build_programs(name, defs, cfgs, profile='dev', extra=''):
    """export MIR for the given accepted definitions in each configuration -> {cfg: path}"""
    lib = corpus.render_lib(defs, extra)
    out = {}
    times = {}
    for c in cfgs:
        path, dt = build.export_mir(name, lib, build.CONFIGS[c], profile)
        out[c] = path
        times[c] = round(dt, 1)
    return out, times


def _worker(args):
    fn, payload = args
    t = time.time()
    try:
        r = fn(payload)
        return ('ok', payload.get('key'), r, time.time() - t)
    except EngineError as e:
        return ('engine', payload.get('key'), str(e), time.time() - t)
    except Exception as e:      # noqa
        return ('crash', payload.get('key'), traceback.format_exc()[-3000:], time.time() - t)


def run_tasks(fn, payloads, jobs=None):
    """run fn(payload) for every payload on a process pool; fn must be a module-level function"""
    jobs = jobs or int(os.environ.get('VERIF_JOBS', '16'))
    jobs = max(1, min(jobs, len(payloads) or 1))
    if jobs == 1:
        return [_worker((fn, p)) for p in payloads]
    ctx = mp.get_context('fork')
    with ctx.Pool(jobs, maxtasksperchild=8) as pool:
        return list(pool.imap_unordered(_worker, [(fn, p) for p in payloads], chunksize=1))


# ----------------------------------------------------------------------------- native replay
def build_native(name, defs, cfg, profile='dev', trace=False, cblog=False):
    """build the corpus + replay driver with the *stable* toolchain (what users run); returns binary.
    trace=True compiles /repo with --cfg logos_verif (the guarded read-trace hook)"""
    feats = build.CONFIGS[cfg]
    cdir = os.path.join(build.WORK, 'native', f'{name}-{build.cfg_name(feats, profile)}' + ('-trace' if trace else '') + ('-cblog' if cblog else ''))
    os.makedirs(os.path.join(cdir, 'src', 'bin'), exist_ok=True)
    fl = ', '.join(f'"{f}"' for f in feats)
    # package and binary are named after the crate directory: several crate directories share one target directory per
    # configuration (to share the builds of logos and its dependencies), and cargo keys fingerprints and the uplifted
    # binary by *package name* for a workspace-root path package -- two directories with one name would be taken for
    # the same package, and the older directory's sources for "fresh", leaving the other one's binary in place
    binname = f'replay-{name}'
    build.write_if_changed(os.path.join(cdir, 'Cargo.toml'), f'''[package]
name = "corpus-{name}"
version = "0.0.0"
edition = "2021"
[lib]
name = "corpus"
path = "src/lib.rs"
[[bin]]
name = "{binname}"
path = "src/bin/replay.rs"
[dependencies]
logos = {{ path = "{build.REPO}", features = [{fl}] }}
[workspace]
[profile.release]
debug-assertions = false
overflow-checks = false
''')
    lock = os.path.join(build.REPO, 'Cargo.lock')
    if os.path.exists(lock) and not os.path.exists(os.path.join(cdir, 'Cargo.lock')):
        with open(lock) as f:
            build.write_if_changed(os.path.join(cdir, 'Cargo.lock'), f.read())
    lib_src = corpus.render_lib(defs)
    ident = hashlib.sha256((lib_src + '\0' + ','.join(d.id for d in defs)).encode()).hexdigest()[:16]
    build.write_if_changed(os.path.join(cdir, 'src', 'lib.rs'), lib_src)
    build.write_if_changed(os.path.join(cdir, 'src', 'bin', 'replay.rs'), corpus.render_replay_main(defs, ident))
    tname = build.cfg_name(feats, profile) + ('-trace' if trace else '') + ('-cblog' if cblog else '')
    env = dict(build.ENV_BASE, CARGO_TARGET_DIR=os.path.join(build.WORK, 'target-native', tname),
               RUSTFLAGS='-Awarnings' + (' --cfg logos_verif' if trace else '') + (' --cfg cb_log' if cblog else ''))
    cmd = ['cargo', 'build', '--offline', '--bin', binname] + (['--release'] if profile == 'release' else [])
    rc, log = build.run(cmd, cwd=cdir, env=env)
    if rc != 0:
        raise build.BuildError(f'native build failed [{cfg} {profile}]:\n{log[-4000:]}')
    binary = os.path.join(build.WORK, 'target-native', tname, 'release' if profile == 'release' else 'debug', binname)
    # the binary must be the one built from the sources just written (never a stale artefact cargo took for fresh)
    try:
        got = subprocess.run([binary, '--ident'], capture_output=True, text=True, timeout=20).stdout.strip()
    except (OSError, subprocess.TimeoutExpired) as e:
        got = f'<{e}>'
    if got != f'IDENT {ident}':
        raise build.BuildError(f'native build [{name} {cfg} {profile}] is not built from the sources in {cdir}: '
                               f'expected IDENT {ident}, binary says {got!r}')
    return binary


def native_run(binary, def_id, data: bytes, partial=False, start=0, timeout=20, valgrind=False):
    """run the real lexer natively -> (items, panicked, raw)"""
    args = [binary, def_id, data.hex(), 'partial' if partial else 'full', str(start)]
    if valgrind:
        args = ['valgrind', '-q', '--error-exitcode=97'] + args
        timeout = 120
    try:
        r = subprocess.run(args, capture_output=True, text=True, timeout=timeout)
    except subprocess.TimeoutExpired:
        return None, 'timeout', ''
    items = []
    reads = []
    cbs = []
    for line in r.stdout.splitlines():
        parts = line.split(' ', 3)
        if parts[0] == 'CB':
            cbs.append((parts[1], int(parts[2]), int(parts[3])))
            continue
        if parts[0] == 'READS':
            reads.append([tuple(int(x) for x in p.split(':')) for p in (parts[1].split(',') if len(parts) > 1 and parts[1] else [])])
            continue
        if parts[0] == 'NONE':
            items.append(('none', int(parts[1]), int(parts[2])))
        elif parts[0] == 'OK':
            items.append(('ok', int(parts[1]), int(parts[2]), parts[3]))
        elif parts[0] == 'ERR':
            items.append(('err', int(parts[1]), int(parts[2]), parts[3]))
    panicked = None
    if r.returncode != 0:
        panicked = (r.stderr.strip().splitlines() or ['exit %d' % r.returncode])[0][:300]
    native_run.last_reads = reads
    native_run.last_cbs = cbs
    return items, panicked, r.stdout


native_run.last_reads = []
native_run.last_cbs = []
