//! mirdump: rustc driver that exports the *monomorphised* MIR of every function reachable from
//! the non-generic functions of the crate being compiled, as JSON, through `rustc_public`
//! (formerly stable_mir).  Constants are already evaluated by `Instance::body()`.
//!
//! Used as `RUSTC_WORKSPACE_WRAPPER=<mirdump> cargo +nightly check` with
//!   MIRDUMP_OUT   = output file (written only for the crate named MIRDUMP_CRATE)
//!   MIRDUMP_CRATE = crate name to export
//!   MIRDUMP_STOP  = '|'-separated substrings of instance names whose bodies are not exported
#![feature(rustc_private)]
extern crate rustc_driver;
extern crate rustc_interface;
extern crate rustc_middle;
#[macro_use]
extern crate rustc_public;
extern crate rustc_public_bridge;
extern crate serde_json;

use rustc_public::abi::{FieldsShape, TagEncoding, VariantsShape};
use rustc_public::mir::alloc::GlobalAlloc;
use rustc_public::mir::mono::{Instance, InstanceKind};
use rustc_public::mir::*;
use rustc_public::ty::*;
use rustc_public::{CrateDef, CrateItem, ItemKind};
use rustc_public_bridge::IndexedVal;
use serde_json::{json, Map, Value};
use std::collections::{HashMap, VecDeque};
use std::ops::ControlFlow;

struct Ctx {
    types: Vec<Value>,
    type_ids: HashMap<Ty, usize>,
    fns: Map<String, Value>,
    queue: VecDeque<Instance>,
    stop: Vec<String>,
    errors: Vec<String>,
}

impl Ctx {
    fn ty(&mut self, ty: Ty) -> usize {
        if let Some(&i) = self.type_ids.get(&ty) {
            return i;
        }
        let id = self.types.len();
        self.type_ids.insert(ty, id);
        self.types.push(Value::Null);
        let v = self.ty_value(ty);
        self.types[id] = v;
        id
    }

    fn ty_value(&mut self, ty: Ty) -> Value {
        let name = format!("{ty}");
        let kind = ty.kind();
        let mut m = Map::new();
        m.insert("name".into(), json!(name));
        let k: Value = match kind {
            TyKind::RigidTy(r) => match r {
                RigidTy::Bool => json!({"k":"bool"}),
                RigidTy::Char => json!({"k":"char"}),
                RigidTy::Int(i) => json!({"k":"int","bits":i.num_bytes()*8,"signed":true}),
                RigidTy::Uint(i) => json!({"k":"int","bits":i.num_bytes()*8,"signed":false}),
                RigidTy::Float(_) => json!({"k":"float"}),
                RigidTy::Str => json!({"k":"str"}),
                RigidTy::Never => json!({"k":"never"}),
                RigidTy::Array(e, n) => {
                    let e = self.ty(e);
                    json!({"k":"array","elem":e,"len":n.eval_target_usize().ok()})
                }
                RigidTy::Slice(e) => {
                    let e = self.ty(e);
                    json!({"k":"slice","elem":e})
                }
                RigidTy::RawPtr(p, mu) => {
                    let p = self.ty(p);
                    json!({"k":"ptr","pointee":p,"mut":matches!(mu, Mutability::Mut)})
                }
                RigidTy::Ref(_, p, mu) => {
                    let p = self.ty(p);
                    json!({"k":"ref","pointee":p,"mut":matches!(mu, Mutability::Mut)})
                }
                RigidTy::Tuple(fs) => {
                    let fs: Vec<usize> = fs.into_iter().map(|f| self.ty(f)).collect();
                    json!({"k":"tuple","fields":fs})
                }
                RigidTy::Adt(def, args) => {
                    let akind = match def.kind() {
                        AdtKind::Enum => "enum",
                        AdtKind::Struct => "struct",
                        AdtKind::Union => "union",
                    };
                    let mut vars = vec![];
                    for (i, v) in def.variants().into_iter().enumerate() {
                        let fields: Vec<Value> = v
                            .fields()
                            .into_iter()
                            .map(|f| {
                                let t = self.ty(f.ty_with_args(&args));
                                json!({"name": f.name.to_string(), "ty": t})
                            })
                            .collect();
                        let discr = if matches!(def.kind(), AdtKind::Enum) {
                            Some(def.discriminant_for_variant(VariantIdx::to_val(i)).val.to_string())
                        } else {
                            None
                        };
                        vars.push(json!({"name": v.name().to_string(), "discr": discr, "fields": fields}));
                    }
                    json!({"k":"adt","adt":def.name().to_string(),"adt_kind":akind,"variants":vars})
                }
                RigidTy::FnDef(def, args) => {
                    let callee = self.resolve(def, &args);
                    json!({"k":"fndef","fn":callee})
                }
                RigidTy::Closure(def, args) => {
                    // the last generic arg of a closure is the tuple of upvar types
                    let upv = args.0.last().and_then(|a| a.ty().copied());
                    let upv = upv.map(|t| self.ty(t));
                    json!({"k":"closure","def":def.name().to_string(),"upvars":upv})
                }
                RigidTy::FnPtr(_) => json!({"k":"fnptr"}),
                RigidTy::Dynamic(..) => json!({"k":"dyn"}),
                other => json!({"k":"other","debug":format!("{other:?}")}),
            },
            other => {
                self.errors.push(format!("non-rigid type {other:?}"));
                json!({"k":"nonrigid"})
            }
        };
        m.insert("kind".into(), k);
        // layout
        if let Ok(l) = ty.layout() {
            let s = l.shape();
            if s.is_sized() {
                m.insert("size".into(), json!(s.size.bytes()));
                let fields = match &s.fields {
                    FieldsShape::Primitive => json!({"k":"primitive"}),
                    FieldsShape::Union(n) => json!({"k":"union","n":n.get()}),
                    FieldsShape::Array { stride, count } => json!({"k":"array","stride":stride.bytes(),"count":count}),
                    FieldsShape::Arbitrary { offsets } => {
                        json!({"k":"struct","offsets":offsets.iter().map(|o| o.bytes()).collect::<Vec<_>>()})
                    }
                };
                m.insert("fields".into(), fields);
                let variants = match &s.variants {
                    VariantsShape::Empty => json!({"k":"empty"}),
                    VariantsShape::Single { index } => json!({"k":"single","index":index.to_index()}),
                    VariantsShape::Multiple { tag, tag_encoding, tag_field, variants } => {
                        let enc = match tag_encoding {
                            TagEncoding::Direct => json!({"k":"direct"}),
                            TagEncoding::Niche { untagged_variant, niche_variants, niche_start } => json!({
                                "k":"niche","untagged":untagged_variant.to_index(),
                                "first":niche_variants.start().to_index(),"last":niche_variants.end().to_index(),
                                "niche_start":niche_start.to_string()}),
                        };
                        let tag_size = serde_json::to_value(tag).unwrap_or(Value::Null);
                        let vs: Vec<Value> = variants
                            .iter()
                            .map(|v| json!(v.offsets.iter().map(|o| o.bytes()).collect::<Vec<_>>()))
                            .collect();
                        json!({"k":"multiple","tag":tag_size,"encoding":enc,"tag_field":tag_field,"variants":vs})
                    }
                };
                m.insert("variants".into(), variants);
            }
        }
        Value::Object(m)
    }

    fn resolve(&mut self, def: FnDef, args: &GenericArgs) -> Value {
        match Instance::resolve(def, args) {
            Ok(inst) => self.instance_ref(inst),
            Err(e) => {
                json!({"unresolved": format!("{e:?}"), "name": def.name().to_string()})
            }
        }
    }

    fn instance_ref(&mut self, inst: Instance) -> Value {
        let key = inst.mangled_name().to_string();
        if !self.fns.contains_key(&key) {
            self.fns.insert(key.clone(), Value::Null);
            self.queue.push_back(inst);
        }
        json!(key)
    }

    fn place(&mut self, p: &Place) -> Value {
        let proj: Vec<Value> = p
            .projection
            .iter()
            .map(|e| match e {
                ProjectionElem::Deref => json!(["deref"]),
                ProjectionElem::Field(i, t) => {
                    let t = self.ty(*t);
                    json!(["field", i, t])
                }
                ProjectionElem::Index(l) => json!(["index", l]),
                ProjectionElem::ConstantIndex { offset, min_length, from_end } => {
                    json!(["cindex", offset, min_length, from_end])
                }
                ProjectionElem::Subslice { from, to, from_end } => json!(["subslice", from, to, from_end]),
                ProjectionElem::Downcast(v) => json!(["downcast", v.to_index()]),
                ProjectionElem::OpaqueCast(t) => {
                    let t = self.ty(*t);
                    json!(["opaque", t])
                }
            })
            .collect();
        json!({"l": p.local, "p": proj})
    }

    fn alloc(&mut self, a: &Allocation, depth: usize) -> Value {
        let bytes: Vec<Value> = a.bytes.iter().map(|b| json!(b)).collect();
        let mut ptrs = vec![];
        for (off, prov) in &a.provenance.ptrs {
            let target = if depth > 4 {
                json!({"k":"deep"})
            } else {
                match GlobalAlloc::from(prov.0) {
                    GlobalAlloc::Function(inst) => {
                        let r = self.instance_ref(inst);
                        json!({"k":"fn","fn":r})
                    }
                    GlobalAlloc::Memory(m) => {
                        let inner = self.alloc(&m, depth + 1);
                        json!({"k":"mem","alloc":inner})
                    }
                    GlobalAlloc::Static(s) => json!({"k":"static","name":s.name().to_string()}),
                    GlobalAlloc::VTable(..) => json!({"k":"vtable"}),
                    GlobalAlloc::TypeId { .. } => json!({"k":"typeid"}),
                }
            };
            ptrs.push(json!([off, target]));
        }
        json!({"bytes": bytes, "ptrs": ptrs})
    }

    fn constant(&mut self, c: &MirConst) -> Value {
        let ty = self.ty(c.ty());
        match c.kind() {
            ConstantKind::ZeroSized => json!({"ty":ty,"k":"zst"}),
            ConstantKind::Allocated(a) => {
                let a = self.alloc(a, 0);
                json!({"ty":ty,"k":"alloc","alloc":a})
            }
            ConstantKind::Ty(tc) => match tc.eval_target_usize() {
                Ok(v) => json!({"ty":ty,"k":"usize","val":v}),
                Err(_) => {
                    self.errors.push(format!("unevaluated ty const {tc:?}"));
                    json!({"ty":ty,"k":"unsupported"})
                }
            },
            other => {
                self.errors.push(format!("unsupported const {other:?}"));
                json!({"ty":ty,"k":"unsupported"})
            }
        }
    }

    fn operand(&mut self, o: &Operand) -> Value {
        match o {
            Operand::Copy(p) => json!(["copy", self.place(p)]),
            Operand::Move(p) => json!(["move", self.place(p)]),
            Operand::Constant(c) => json!(["const", self.constant(&c.const_)]),
            Operand::RuntimeChecks(rc) => json!(["rtcheck", format!("{rc:?}")]),
        }
    }

    fn rvalue(&mut self, rv: &Rvalue, locals: &[LocalDecl]) -> Value {
        let rty = rv.ty(locals).ok().map(|t| self.ty(t));
        let v = match rv {
            Rvalue::Use(o, _) => json!(["use", self.operand(o)]),
            Rvalue::Ref(_, bk, p) => json!(["ref", self.place(p), matches!(bk, BorrowKind::Mut { .. })]),
            Rvalue::AddressOf(k, p) => json!(["addrof", self.place(p), matches!(k, RawPtrKind::Mut)]),
            Rvalue::BinaryOp(op, a, b) => {
                let oty = a.ty(locals).ok().map(|t| self.ty(t));
                json!(["binop", format!("{op:?}"), self.operand(a), self.operand(b), oty])
            }
            Rvalue::CheckedBinaryOp(op, a, b) => {
                let oty = a.ty(locals).ok().map(|t| self.ty(t));
                json!(["checked_binop", format!("{op:?}"), self.operand(a), self.operand(b), oty])
            }
            Rvalue::UnaryOp(op, a) => {
                let oty = a.ty(locals).ok().map(|t| self.ty(t));
                json!(["unop", format!("{op:?}"), self.operand(a), oty])
            }
            Rvalue::Cast(k, o, t) => {
                let src = o.ty(locals).ok().map(|t| self.ty(t));
                let t = self.ty(*t);
                json!(["cast", format!("{k:?}"), self.operand(o), t, src])
            }
            Rvalue::Discriminant(p) => json!(["discr", self.place(p)]),
            Rvalue::Len(p) => json!(["len", self.place(p)]),
            Rvalue::CopyForDeref(p) => json!(["use", ["copy", self.place(p)]]),
            Rvalue::Repeat(o, n) => json!(["repeat", self.operand(o), n.eval_target_usize().ok()]),
            Rvalue::Aggregate(k, ops) => {
                let ops: Vec<Value> = ops.iter().map(|o| self.operand(o)).collect();
                let k = match k {
                    AggregateKind::Array(t) => json!(["array", self.ty(*t)]),
                    AggregateKind::Tuple => json!(["tuple"]),
                    AggregateKind::Adt(def, v, args, _, active) => {
                        let t = self.ty(def.ty_with_args(args));
                        json!(["adt", t, v.to_index(), active])
                    }
                    AggregateKind::Closure(def, args) => {
                        let t = self.ty(Ty::new_closure(*def, args.clone()));
                        json!(["closure", t])
                    }
                    AggregateKind::RawPtr(t, m) => json!(["rawptr", self.ty(*t), matches!(m, Mutability::Mut)]),
                    other => {
                        self.errors.push(format!("unsupported aggregate {other:?}"));
                        json!(["unsupported"])
                    }
                };
                json!(["aggregate", k, ops])
            }
            other => {
                self.errors.push(format!("unsupported rvalue {other:?}"));
                json!(["unsupported", format!("{other:?}")])
            }
        };
        json!({"rv": v, "ty": rty})
    }

    fn body(&mut self, b: &Body) -> Value {
        let locals: Vec<usize> = b.locals().iter().map(|l| self.ty(l.ty)).collect();
        let mut blocks = vec![];
        for bb in &b.blocks {
            let mut stmts = vec![];
            for s in &bb.statements {
                match &s.kind {
                    StatementKind::Assign(p, rv) => {
                        let p = self.place(p);
                        let rv = self.rvalue(rv, b.locals());
                        stmts.push(json!(["assign", p, rv]));
                    }
                    StatementKind::SetDiscriminant { place, variant_index } => {
                        stmts.push(json!(["setdiscr", self.place(place), variant_index.to_index()]));
                    }
                    StatementKind::Intrinsic(NonDivergingIntrinsic::Assume(o)) => {
                        stmts.push(json!(["assume", self.operand(o)]));
                    }
                    StatementKind::Intrinsic(NonDivergingIntrinsic::CopyNonOverlapping(c)) => {
                        stmts.push(json!(["copy_nonoverlapping", self.operand(&c.src), self.operand(&c.dst), self.operand(&c.count)]));
                    }
                    StatementKind::StorageLive(l) => stmts.push(json!(["live", l])),
                    StatementKind::StorageDead(l) => stmts.push(json!(["dead", l])),
                    StatementKind::FakeRead(..)
                    | StatementKind::PlaceMention(..)
                    | StatementKind::AscribeUserType { .. }
                    | StatementKind::Coverage(..)
                    | StatementKind::ConstEvalCounter
                    | StatementKind::Nop => {}
                }
            }
            let span = bb.terminator.span.get_lines();
            let t = match &bb.terminator.kind {
                TerminatorKind::Goto { target } => json!(["goto", target]),
                TerminatorKind::SwitchInt { discr, targets } => {
                    let br: Vec<Value> = targets.branches().map(|(v, t)| json!([v.to_string(), t])).collect();
                    let dty = discr.ty(b.locals()).ok().map(|t| self.ty(t));
                    json!(["switch", self.operand(discr), br, targets.otherwise(), dty])
                }
                TerminatorKind::Resume => json!(["resume"]),
                TerminatorKind::Abort => json!(["abort"]),
                TerminatorKind::Return => json!(["return"]),
                TerminatorKind::Unreachable => json!(["unreachable"]),
                TerminatorKind::Drop { place, target, .. } => {
                    let needs = place
                        .ty(b.locals())
                        .map(|t| !Instance::resolve_drop_in_place(t).is_empty_shim())
                        .unwrap_or(true);
                    json!(["drop", self.place(place), target, needs])
                }
                TerminatorKind::Call { func, args, destination, target, .. } => {
                    let fty = func.ty(b.locals()).ok();
                    let callee = match fty.as_ref().map(|t| t.kind()) {
                        Some(TyKind::RigidTy(RigidTy::FnDef(def, gargs))) => self.resolve(def, &gargs),
                        _ => Value::Null,
                    };
                    let f = if callee.is_null() { self.operand(func) } else { Value::Null };
                    let args: Vec<Value> = args.iter().map(|a| self.operand(a)).collect();
                    json!(["call", {"fn": callee, "fnop": f, "args": args, "dest": self.place(destination), "target": target,
                                   "line": span.start_line}])
                }
                TerminatorKind::Assert { cond, expected, msg, target, .. } => {
                    let m = match msg {
                        AssertMessage::BoundsCheck { .. } => "BoundsCheck".to_string(),
                        AssertMessage::Overflow(op, ..) => format!("Overflow({op:?})"),
                        other => format!("{other:?}").chars().take(60).collect(),
                    };
                    json!(["assert", self.operand(cond), expected, m, target])
                }
                TerminatorKind::InlineAsm { .. } => {
                    self.errors.push("inline asm".into());
                    json!(["unsupported"])
                }
            };
            blocks.push(json!({"s": stmts, "t": t}));
        }
        json!({"arg_count": b.arg_locals().len(), "locals": locals, "blocks": blocks,
               "spread_arg": b.spread_arg()})
    }

    fn export_instance(&mut self, inst: Instance) {
        let key = inst.mangled_name().to_string();
        let name = inst.name().to_string();
        let kind = match inst.kind {
            InstanceKind::Item => "item",
            InstanceKind::Intrinsic => "intrinsic",
            InstanceKind::Virtual { .. } => "virtual",
            InstanceKind::Shim => "shim",
        };
        let stopped = self.stop.iter().any(|s| name.contains(s.as_str()));
        let intrinsic = inst.intrinsic_name().map(|s| s.to_string());
        let is_shim = matches!(inst.kind, InstanceKind::Shim);
        let body = if !stopped && intrinsic.is_none() && (inst.has_body() || is_shim) {
            inst.body().map(|b| self.body(&b))
        } else {
            None
        };
        let def_name = inst.def.name().to_string();
        let fty = self.ty(inst.ty());
        let span = inst.def.span();
        let file = span.get_filename().to_string();
        let line = span.get_lines().start_line;
        self.fns.insert(
            key,
            json!({"name": name, "def": def_name, "kind": kind, "intrinsic": intrinsic, "body": body,
                   "stopped": stopped, "ty": fty, "file": file, "line": line}),
        );
    }
}

fn export() -> ControlFlow<()> {
    let out = std::env::var("MIRDUMP_OUT").expect("MIRDUMP_OUT");
    let stop: Vec<String> = std::env::var("MIRDUMP_STOP")
        .unwrap_or_default()
        .split('|')
        .filter(|s| !s.is_empty())
        .map(|s| s.to_string())
        .collect();
    let mut cx = Ctx {
        types: vec![],
        type_ids: HashMap::new(),
        fns: Map::new(),
        queue: VecDeque::new(),
        stop,
        errors: vec![],
    };
    let mut roots = vec![];
    for item in rustc_public::all_local_items() {
        if !matches!(item.kind(), ItemKind::Fn) {
            continue;
        }
        if let Ok(inst) = Instance::try_from(item) {
            roots.push(json!({"key": inst.mangled_name().to_string(), "name": item_name(&item)}));
            cx.instance_ref(inst);
        }
    }
    while let Some(inst) = cx.queue.pop_front() {
        cx.export_instance(inst);
    }
    let doc = json!({"roots": roots, "types": cx.types, "fns": cx.fns, "errors": cx.errors});
    std::fs::write(&out, serde_json::to_vec(&doc).unwrap()).expect("write MIRDUMP_OUT");
    ControlFlow::Continue(())
}

fn item_name(item: &CrateItem) -> String {
    item.name().to_string()
}

fn main() {
    let mut args: Vec<String> = std::env::args().collect();
    // RUSTC_WORKSPACE_WRAPPER passes the real rustc as argv[1]
    if args.len() > 1 && (args[1].ends_with("rustc") || args[1].contains("/rustc")) {
        args.remove(1);
    }
    let want = std::env::var("MIRDUMP_CRATE").unwrap_or_default();
    let is_target = args.windows(2).any(|w| w[0] == "--crate-name" && w[1] == want);
    if !is_target {
        // plain rustc behaviour for every other crate
        struct Plain;
        impl rustc_driver::Callbacks for Plain {}
        rustc_driver::run_compiler(&args, &mut Plain);
        return;
    }
    let _ = run!(&args, export);
}
