//! verdict: run the real `logos_codegen::generate` (the derive's back end, from /repo's working tree)
//! on enum definitions and report whether it accepts them (generated impl) or rejects them
//! (`compile_error!` diagnostics), or panics.
//! stdin : {"defs": [{"id": str, "src": "<rust enum item with #[derive(Logos)] stripped or not>"}]}
//! stdout: {"results": [{"id":..., "status": "accepted"|"rejected"|"panicked"|"unparsable", "errors":[..],
//!                       "code_len": n, "code_hash": hex}]}
use proc_macro2::{TokenStream, TokenTree};
use serde_json::{json, Value};
use std::io::Read;

fn collect_errors(ts: TokenStream, out: &mut Vec<String>) {
    let toks: Vec<TokenTree> = ts.into_iter().collect();
    let mut i = 0;
    while i < toks.len() {
        match &toks[i] {
            TokenTree::Ident(id) if id == "compile_error" => {
                if let (Some(TokenTree::Punct(p)), Some(TokenTree::Group(g))) = (toks.get(i + 1), toks.get(i + 2)) {
                    if p.as_char() == '!' {
                        let inner = g.stream().to_string();
                        let msg = match syn::parse_str::<syn::LitStr>(&inner) {
                            Ok(l) => l.value(),
                            Err(_) => inner,
                        };
                        out.push(msg);
                        i += 3;
                        continue;
                    }
                }
            }
            TokenTree::Group(g) => collect_errors(g.stream(), out),
            _ => {}
        }
        i += 1;
    }
}

fn fnv(s: &str) -> String {
    let mut h: u64 = 0xcbf29ce484222325;
    for b in s.bytes() {
        h ^= b as u64;
        h = h.wrapping_mul(0x100000001b3);
    }
    format!("{h:016x}")
}

fn main() {
    let mut s = String::new();
    std::io::stdin().read_to_string(&mut s).unwrap();
    let req: Value = serde_json::from_str(&s).expect("json");
    std::panic::set_hook(Box::new(|_| {}));
    let mut results = vec![];
    for d in req["defs"].as_array().unwrap() {
        let id = d["id"].as_str().unwrap_or("");
        let src = d["src"].as_str().unwrap();
        let ts: Result<TokenStream, _> = src.parse();
        let ts = match ts {
            Ok(t) => t,
            Err(e) => {
                results.push(json!({"id": id, "status": "unparsable", "errors": [format!("{e}")]}));
                continue;
            }
        };
        let r = std::panic::catch_unwind(|| logos_codegen::generate(ts).to_string());
        match r {
            Err(p) => {
                let msg = p
                    .downcast_ref::<String>()
                    .cloned()
                    .or_else(|| p.downcast_ref::<&str>().map(|s| s.to_string()))
                    .unwrap_or_default();
                results.push(json!({"id": id, "status": "panicked", "errors": [msg]}));
            }
            Ok(code) => {
                let mut errs = vec![];
                collect_errors(code.parse().unwrap(), &mut errs);
                let status = if errs.is_empty() { "accepted" } else { "rejected" };
                results.push(json!({"id": id, "status": status, "errors": errs, "code_len": code.len(), "code_hash": fnv(&code)}));
            }
        }
    }
    println!("{}", serde_json::to_string(&json!({"results": results})).unwrap());
}
