#!/bin/bash
# tools/iso.sh <tag> <command...>: run a command with private .work / evidence / replays (bind mounts in a private mount
# namespace), against the real /repo -- for development runs while other checks are using /verif/.work
tag=$1; shift
W=/tmp/iso-$tag
mkdir -p $W/work $W/evidence $W/replays
[ -d $W/work/tooltarget ] || cp -r /verif/.work/tooltarget $W/work/ 2>/dev/null
exec unshare -m bash -c "mount --bind $W/work /verif/.work && mount --bind $W/evidence /verif/evidence && mount --bind $W/replays /verif/replays && cd /verif && $*"
