#!/usr/bin/env python3
"""Seeded-change bookkeeping.

  seeded.py import <id> <agent SEEDED dir> <property>     copy deliverables into /verif/seeded/<id>/
  seeded.py verify <id>       in a fresh scratch worktree: suite green with the patch, demo fails with / passes without
  seeded.py run <id> [checks...]   apply the patch to /repo, run the given checks (default: meta.property), undo
"""
import json
import os
import shutil
import subprocess
import sys
import time

VERIF = os.path.dirname(os.path.dirname(os.path.abspath(__file__)))
SEEDED = os.path.join(VERIF, 'seeded')
REPO = '/repo'
ENV = dict(os.environ, CARGO_NET_OFFLINE='true')


def sh(cmd, cwd=None, env=None, timeout=3600):
    r = subprocess.run(cmd, shell=True, cwd=cwd, env=env or ENV, stdout=subprocess.PIPE, stderr=subprocess.STDOUT, text=True,
                       timeout=timeout)
    return r.returncode, r.stdout


def load_meta(i):
    with open(os.path.join(SEEDED, i, 'meta.json')) as f:
        return json.load(f)


def save_meta(i, m):
    with open(os.path.join(SEEDED, i, 'meta.json'), 'w') as f:
        json.dump(m, f, indent=1)


def cmd_import(i, src, prop):
    dst = os.path.join(SEEDED, i)
    os.makedirs(dst, exist_ok=True)
    for root, _, files in os.walk(src):
        for fn in files:
            rel = os.path.relpath(os.path.join(root, fn), src)
            if rel.endswith('.log'):
                continue
            os.makedirs(os.path.dirname(os.path.join(dst, rel)) or dst, exist_ok=True)
            shutil.copy(os.path.join(root, fn), os.path.join(dst, rel))
    meta = {'id': i, 'property': prop, 'source': 'sub-agent given only the property text and a scratch worktree',
            'demo_files': {}, 'demo_cmd': '', 'needs': '', 'verified': None, 'checks': {}}
    if not os.path.exists(os.path.join(dst, 'meta.json')):
        save_meta(i, meta)
    print('imported into', dst)


def cmd_verify(i):
    m = load_meta(i)
    d = os.path.join(SEEDED, i)
    wt = f'/tmp/vf-{i}'
    tgt = '/tmp/vf-target'
    sh(f'git -C {REPO} worktree remove --force {wt}')
    rc, out = sh(f'git -C {REPO} worktree add -q {wt} HEAD')
    assert rc == 0, out
    env = dict(ENV, CARGO_TARGET_DIR=tgt)
    res = {}
    try:
        rc, out = sh(f'git apply {d}/patch.diff', cwd=wt)
        assert rc == 0, 'patch does not apply: ' + out
        t = time.time()
        rc, out = sh('cargo test --workspace --offline --no-fail-fast 2>&1 | grep -E "^test result|FAILED|panicked" ', cwd=wt, env=env)
        passed = sum(int(l.split()[3]) for l in out.splitlines() if l.startswith('test result'))
        failed = sum(int(l.split()[5]) for l in out.splitlines() if l.startswith('test result'))
        res['suite_with_patch'] = {'passed': passed, 'failed': failed, 's': round(time.time() - t)}
        # demo in place
        for rel_src, rel_dst in m['demo_files'].items():
            os.makedirs(os.path.dirname(os.path.join(wt, rel_dst)), exist_ok=True)
            shutil.copy(os.path.join(d, rel_src), os.path.join(wt, rel_dst))
        rc1, out1 = sh(m['demo_cmd'] + ' 2>&1 | tail -25', cwd=wt, env=env)
        res['demo_with_patch'] = {'rc': rc1, 'tail': out1[-1500:]}
        rc, out = sh(f'git apply -R {d}/patch.diff', cwd=wt)
        assert rc == 0, out
        rc2, out2 = sh(m['demo_cmd'] + ' 2>&1 | tail -8', cwd=wt, env=env)
        res['demo_without_patch'] = {'rc': rc2, 'tail': out2[-600:]}
        demo_fails = ('FAILED' in out1 or 'failed' in out1 or 'overflowed' in out1 or 'error' in out1) and 'test result: ok' not in out1.splitlines()[-1:]
        demo_passes = 'test result: ok' in out2 and 'FAILED' not in out2
        res['ok'] = bool(failed == 0 and passed >= 163 and demo_fails and demo_passes)
    finally:
        sh(f'git -C {REPO} worktree remove --force {wt}')
    m['verified'] = res
    save_meta(i, m)
    print(json.dumps(res, indent=1)[:3000])


def cmd_run(i, checks):
    m = load_meta(i)
    d = os.path.join(SEEDED, i)
    checks = checks or [m['property']]
    rc, out = sh(f'git -C {REPO} status --porcelain')
    assert out.strip() == '', '/repo is not clean: ' + out
    rc, out = sh(f'git -C {REPO} apply {d}/patch.diff')
    assert rc == 0, out
    try:
        for c in checks:
            tier = 'quick'
            if ':' in c:
                c, tier = c.split(':')
            t = time.time()
            rc, out = sh(f'./check {c} --tier {tier}', cwd=VERIF)
            lines = [l for l in out.splitlines() if l.startswith(('VIOLATION', 'KNOWN', 'ENGINE')) or 'rc=' in l]
            viol = [l for l in out.splitlines() if l.startswith('VIOLATION')]
            detail = [l for l in out.splitlines() if l.startswith('  ')][:3]
            rec = {'exit': rc, 'violations': len(viol), 'first': (detail[0].strip()[:300] if detail else ''),
                   's': round(time.time() - t)}
            m['checks'][f'{c}:{tier}'] = rec
            _, head = sh('git -C /verif log --format=%h -1')
            m.setdefault('history', []).append(dict(rec, check=f'{c}:{tier}', verif_commit=head.strip(), at=time.strftime('%H:%M')))
            print(f'{i} {c}:{tier} exit={rc} violations={len(viol)} {round(time.time() - t)}s')
            for l in (viol[:2] + detail[:2] + [x for x in lines if x.startswith('ENGINE')][:3]):
                print('    ' + l[:400])
    finally:
        sh(f'git -C {REPO} checkout -- .')
        rc, out = sh(f'git -C {REPO} status --porcelain')
        assert out.strip() == '', 'could not restore /repo: ' + out
    save_meta(i, m)


def cmd_runiso(i, checks):
    """like `run`, but against a patched scratch copy of /repo bind-mounted over /repo in a private mount namespace
    (with private .work, evidence and replays), so that several changes can be tried while other checks run"""
    m = load_meta(i)
    d = os.path.join(SEEDED, i)
    checks = checks or [m['property']]
    sw, swork, sout = f'/tmp/sw-{i}', f'/tmp/swork-{i}', f'/tmp/sout-{i}'
    sh(f'rm -rf {sw} {swork} {sout}; mkdir -p {swork} {sout}/evidence {sout}/replays')
    rc, out = sh(f'rsync -a --exclude target --exclude .git {REPO}/ {sw}/ && git -C {sw} init -q 2>/dev/null; cd {sw} && git apply {d}/patch.diff')
    assert rc == 0, out
    sh(f'cp -r {VERIF}/.work/tooltarget {swork}/tooltarget')
    try:
        for c in checks:
            tier = 'quick'
            if ':' in c:
                c, tier = c.split(':')
            t = time.time()
            inner = (f'mount --bind {sw} /repo && mount --bind {swork} {VERIF}/.work && mount --bind {sout}/evidence {VERIF}/evidence '
                     f'&& mount --bind {sout}/replays {VERIF}/replays && cd {VERIF} && ./check {c} --tier {tier}')
            rc, out = sh(f"unshare -m bash -c '{inner}'", cwd=VERIF, timeout=6 * 3600)
            lines = [l for l in out.splitlines() if l.startswith(('VIOLATION', 'KNOWN', 'ENGINE')) or 'rc=' in l]
            viol = [l for l in out.splitlines() if l.startswith('VIOLATION')]
            detail = [l for l in out.splitlines() if l.startswith('  ')][:3]
            rec = {'exit': rc, 'violations': len(viol), 'first': (detail[0].strip()[:300] if detail else ''),
                   's': round(time.time() - t)}
            m = load_meta(i)
            m['checks'][f'{c}:{tier}'] = rec
            _, head = sh('git -C /verif log --format=%h -1')
            m.setdefault('history', []).append(dict(rec, check=f'{c}:{tier}', verif_commit=head.strip(), at=time.strftime('%H:%M')))
            save_meta(i, m)
            print(f'{i} {c}:{tier} exit={rc} violations={len(viol)} {round(time.time() - t)}s', flush=True)
            for l in (viol[:2] + detail[:2] + [x for x in lines if x.startswith('ENGINE')][:3] + ([] if rc in (0, 1) else out.splitlines()[-6:])):
                print('    ' + l[:400], flush=True)
    finally:
        sh(f'rm -rf {sw} {swork} {sout}')


def cmd_table():
    import glob
    rows = []
    for mp in sorted(glob.glob(os.path.join(SEEDED, '*', 'meta.json'))):
        m = json.load(open(mp))
        hist = m.get('history', [])
        first = {}
        last = {}
        for h in hist:
            first.setdefault(h['check'], h)
            last[h['check']] = h
        caught = sorted(c.split(':')[0] for c, h in last.items() if h['exit'] == 1)
        missed_then = sorted(c.split(':')[0] for c, h in first.items() if h['exit'] != 1 and last[c]['exit'] == 1)
        still = sorted(c.split(':')[0] for c, h in last.items() if h['exit'] != 1)
        rows.append((m['id'], m['property'], m.get('needs', '')[:150].replace('|', '/'), ', '.join(caught) or '-', ', '.join(missed_then) or '-',
                     ', '.join(f'{c} (exit {last[c + ":quick"]["exit"]})' for c in still) or '-'))
    print('| change | seeded for | what it needs to manifest | caught by (quick tier) | missed at first, caught after strengthening | not caught by |')
    print('|---|---|---|---|---|---|')
    for r in rows:
        print('| ' + ' | '.join(r) + ' |')


if __name__ == '__main__':
    a = sys.argv[1:]
    if a[0] == 'table':
        cmd_table()
        sys.exit(0)
    if a[0] == 'import':
        cmd_import(a[1], a[2], a[3])
    elif a[0] == 'verify':
        cmd_verify(a[1])
    elif a[0] == 'run':
        cmd_run(a[1], a[2:])
    elif a[0] == 'runiso':
        cmd_runiso(a[1], a[2:])
