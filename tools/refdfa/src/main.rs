//! refdfa: reference automata, built independently of logos-codegen.
//!
//! stdin : {"utf8": bool, "patterns": [{"kind":"regex"|"literal", "src": str, "bytes":[u8..] (literal),
//!          "unicode": bool, "ignore_case": bool}]}
//! stdout: per pattern a minimised, anchored, single-pattern dense DFA as plain tables:
//!         classes (byte -> class), trans[state][class], eoi[state], is_match[state] (delayed by one
//!         symbol, as in regex-automata), start, plus HIR facts (min_len, is_utf8, documented priority).
//! mode `oracle`: brute-force matcher (PikeVM, haystack context) for replay:
//! stdin : {... same ..., "input":[u8..], "start": n}  -> for each pattern the list of ends e such that
//!         the pattern matches exactly input[start..e] (longest-within-span == e)
use regex_automata::dfa::{dense, Automaton, StartKind};
use regex_automata::nfa::thompson::{pikevm::PikeVM, NFA};
use regex_automata::util::primitives::StateID;
use regex_automata::{Anchored, Input, MatchKind};
use regex_syntax::hir::{Hir, HirKind};
use regex_syntax::ParserBuilder;
use serde_json::{json, Value};
use std::collections::{BTreeMap, HashMap};
use std::io::Read;

fn parse(p: &Value) -> Result<Hir, String> {
    let kind = p["kind"].as_str().unwrap_or("regex");
    if kind == "literal" {
        let bytes: Vec<u8> = p["bytes"].as_array().unwrap().iter().map(|b| b.as_u64().unwrap() as u8).collect();
        return Ok(Hir::literal(bytes));
    }
    let src = p["src"].as_str().unwrap();
    ParserBuilder::new()
        .utf8(false)
        .unicode(p["unicode"].as_bool().unwrap_or(true))
        .case_insensitive(p["ignore_case"].as_bool().unwrap_or(false))
        .build()
        .parse(src)
        .map_err(|e| format!("{e}"))
}

/// the *documented* default priority of a regex (book/src/token-disambiguation.md), implemented
/// independently of logos-codegen's Pattern::complexity: 2 per literal character / class,
/// concatenation adds, alternation takes the minimum, repetition multiplies by its minimum count,
/// look-around counts zero.
fn doc_priority(h: &Hir) -> u64 {
    match h.kind() {
        HirKind::Empty => 0,
        HirKind::Look(_) => 0,
        HirKind::Class(_) => 2,
        HirKind::Literal(l) => match std::str::from_utf8(&l.0) {
            Ok(s) => 2 * s.chars().count() as u64,
            Err(_) => 2 * l.0.len() as u64,
        },
        HirKind::Repetition(r) => r.min as u64 * doc_priority(&r.sub),
        HirKind::Capture(c) => doc_priority(&c.sub),
        HirKind::Concat(v) => v.iter().map(doc_priority).sum(),
        HirKind::Alternation(v) => v.iter().map(doc_priority).min().unwrap_or(0),
    }
}

fn build_tables(h: &Hir, utf8: bool) -> Result<Value, String> {
    let nfa = NFA::compiler()
        .configure(NFA::config().shrink(true).utf8(utf8))
        .build_from_hir(h)
        .map_err(|e| format!("nfa: {e}"))?;
    let dfa = dense::Builder::new()
        .configure(
            dense::Config::new()
                .accelerate(false)
                .byte_classes(false)
                .minimize(true)
                .match_kind(MatchKind::All)
                .start_kind(StartKind::Anchored),
        )
        .build_from_nfa(&nfa)
        .map_err(|e| format!("dfa: {e}"))?;
    let start = match dfa.universal_start_state(Anchored::Yes) {
        Some(s) => s,
        None => return Ok(json!({"no_universal_start": true})),
    };
    // enumerate reachable states
    let mut ids: Vec<StateID> = vec![start];
    let mut idx: HashMap<StateID, usize> = HashMap::new();
    idx.insert(start, 0);
    let mut i = 0;
    while i < ids.len() {
        let s = ids[i];
        i += 1;
        let mut nexts: Vec<StateID> = (0..=255u8).map(|b| dfa.next_state(s, b)).collect();
        nexts.push(dfa.next_eoi_state(s));
        for n in nexts {
            if !idx.contains_key(&n) {
                idx.insert(n, ids.len());
                ids.push(n);
            }
        }
    }
    // byte classes: group bytes with identical columns
    let mut col_ids: BTreeMap<Vec<usize>, usize> = BTreeMap::new();
    let mut classes = vec![0usize; 256];
    for b in 0..=255u8 {
        let col: Vec<usize> = ids.iter().map(|&s| idx[&dfa.next_state(s, b)]).collect();
        let n = col_ids.len();
        let c = *col_ids.entry(col).or_insert(n);
        classes[b as usize] = c;
    }
    let ncls = col_ids.len();
    let mut rep = vec![0u8; ncls];
    for b in (0..=255u8).rev() {
        rep[classes[b as usize]] = b;
    }
    let trans: Vec<Vec<usize>> =
        ids.iter().map(|&s| (0..ncls).map(|c| idx[&dfa.next_state(s, rep[c])]).collect()).collect();
    let eoi: Vec<usize> = ids.iter().map(|&s| idx[&dfa.next_eoi_state(s)]).collect();
    let is_match: Vec<bool> = ids.iter().map(|&s| dfa.is_match_state(s)).collect();
    let is_dead: Vec<bool> = ids.iter().map(|&s| dfa.is_dead_state(s)).collect();
    let is_quit: Vec<bool> = ids.iter().map(|&s| dfa.is_quit_state(s)).collect();
    Ok(json!({"nstates": ids.len(), "start": 0, "classes": classes, "ncls": ncls, "trans": trans, "eoi": eoi,
              "is_match": is_match, "is_dead": is_dead, "is_quit": is_quit, "has_empty": dfa.has_empty()}))
}

fn main() {
    let mode = std::env::args().nth(1).unwrap_or_else(|| "tables".into());
    let mut s = String::new();
    std::io::stdin().read_to_string(&mut s).unwrap();
    let req: Value = serde_json::from_str(&s).expect("json");
    let utf8 = req["utf8"].as_bool().unwrap_or(true);
    let pats = req["patterns"].as_array().unwrap();
    let mut out = vec![];
    if mode == "tables" {
        for p in pats {
            match parse(p) {
                Err(e) => out.push(json!({"ok": false, "error": e, "stage": "parse"})),
                Ok(h) => {
                    let props = h.properties();
                    let facts = json!({"min_len": props.minimum_len(), "max_len": props.maximum_len(),
                                       "is_utf8": props.is_utf8(), "doc_priority": doc_priority(&h),
                                       "look_set_empty": props.look_set().is_empty(),
                                       "hir": format!("{:?}", h.kind()).chars().take(400).collect::<String>()});
                    match build_tables(&h, utf8) {
                        Ok(t) => out.push(json!({"ok": true, "facts": facts, "dfa": t})),
                        Err(e) => out.push(json!({"ok": false, "error": e, "stage": "build", "facts": facts})),
                    }
                }
            }
        }
    } else {
        let input: Vec<u8> = req["input"].as_array().unwrap().iter().map(|b| b.as_u64().unwrap() as u8).collect();
        let start = req["start"].as_u64().unwrap() as usize;
        for p in pats {
            let h = match parse(p) {
                Ok(h) => h,
                Err(e) => {
                    out.push(json!({"ok": false, "error": e}));
                    continue;
                }
            };
            let nfa = match NFA::compiler().configure(NFA::config().utf8(utf8)).build_from_hir(&h) {
                Ok(n) => n,
                Err(e) => {
                    out.push(json!({"ok": false, "error": format!("{e}")}));
                    continue;
                }
            };
            let vm = PikeVM::builder()
                .configure(PikeVM::config().match_kind(MatchKind::All))
                .build_from_nfa(nfa)
                .unwrap();
            let mut cache = vm.create_cache();
            let mut ends = vec![];
            for e in start..=input.len() {
                let inp = Input::new(&input).span(start..e).anchored(Anchored::Yes);
                // MatchKind::All + anchored: the reported match is the longest one inside the span
                let mut longest: Option<usize> = None;
                let mut caps = vm.create_captures();
                vm.search(&mut cache, &inp, &mut caps);
                if let Some(m) = caps.get_match() {
                    longest = Some(m.end());
                }
                if longest == Some(e) {
                    ends.push(e);
                }
            }
            out.push(json!({"ok": true, "ends": ends}));
        }
    }
    println!("{}", serde_json::to_string(&json!({"patterns": out})).unwrap());
}
