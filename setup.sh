#!/bin/bash
# builds everything the checks need from files on disk only (offline)
set -e
cd "$(dirname "$0")"
export CARGO_NET_OFFLINE=true
python3-vt -m mirsym.setup
