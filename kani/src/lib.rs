//! Kani/CBMC harnesses over the *compiled* logos runtime (pointer checks on the unsafe blocks):
//! Source::read contract and Lexer::bump, with hand-written Logos impls (no generated code involved).
#![allow(dead_code)]
use logos::{Lexer, Logos, Source};

#[derive(Debug, PartialEq, Clone)]
pub struct StepB;
impl<'s> Logos<'s> for StepB {
    type Extras = ();
    type Source = [u8];
    type Error = ();
    fn lex(lex: &mut Lexer<'s, Self>) -> Option<Result<Self, ()>> {
        if lex.remainder().is_empty() {
            return None;
        }
        lex.bump(1);
        Some(Ok(StepB))
    }
}

#[cfg(kani)]
mod proofs {
    use super::*;

    const N: usize = 8;

    fn any_slice(buf: &[u8; N]) -> &[u8] {
        let len: usize = kani::any();
        kani::assume(len <= N);
        &buf[..len]
    }

    // one generic body, four separate proof functions: Kani's in-place concrete playback inserts its generated test next
    // to the harness, which does not work for harnesses produced by a macro
    fn read_contract<const K: usize>() {
        let buf: [u8; N] = kani::any();
        let src = any_slice(&buf);
        let off: usize = kani::any();
        let r: Option<&[u8; K]> = src.read(off);
        let fits = off.checked_add(K).map_or(false, |e| e <= src.len());
        assert_eq!(r.is_some(), fits);
        if let Some(chunk) = r {
            kani::cover!(true, "Some reachable");
            let mut i = 0;
            while i < K {
                assert_eq!(chunk[i], src[off + i]);
                i += 1;
            }
        } else {
            kani::cover!(true, "None reachable");
        }
    }

    #[kani::proof]
    #[kani::unwind(10)]
    fn read_a1() {
        read_contract::<1>()
    }

    #[kani::proof]
    #[kani::unwind(10)]
    fn read_a2() {
        read_contract::<2>()
    }

    #[kani::proof]
    #[kani::unwind(10)]
    fn read_a4() {
        read_contract::<4>()
    }

    #[kani::proof]
    #[kani::unwind(10)]
    fn read_a8() {
        read_contract::<8>()
    }

    #[kani::proof]
    #[kani::unwind(10)]
    fn read_u8() {
        let buf: [u8; N] = kani::any();
        let src = any_slice(&buf);
        let off: usize = kani::any();
        let r: Option<u8> = src.read(off);
        assert_eq!(r.is_some(), off < src.len());
        if let Some(b) = r {
            assert_eq!(b, src[off]);
        }
    }

    #[kani::proof]
    #[kani::unwind(10)]
    fn read_str_a4() {
        // ASCII only: a valid str without running the UTF-8 validator under CBMC
        let buf: [u8; N] = kani::any();
        let mut i = 0;
        while i < N {
            kani::assume(buf[i] < 0x80);
            i += 1;
        }
        let bytes = any_slice(&buf);
        let s = unsafe { core::str::from_utf8_unchecked(bytes) };
        let off: usize = kani::any();
        let r: Option<&[u8; 4]> = s.read(off);
        let fits = off.checked_add(4).map_or(false, |e| e <= s.len());
        assert_eq!(r.is_some(), fits);
    }

    /// bump from an arbitrary reachable position: either it returns and the position is valid, or it panics
    /// (Kani reports the panic as a failed check, so the harness only allows in-range n; out-of-range n is
    /// covered by `bump_out_of_range_panics`).
    #[kani::proof]
    #[kani::unwind(10)]
    fn bump_in_range() {
        let buf: [u8; N] = kani::any();
        let src = any_slice(&buf);
        let mut lex: Lexer<StepB> = Lexer::new(src);
        let a: usize = kani::any();
        let n: usize = kani::any();
        kani::assume(a <= src.len());
        kani::assume(n <= src.len() - a);
        lex.bump(a);
        lex.bump(n);
        assert_eq!(lex.span(), 0..a + n);
        assert_eq!(lex.slice().len(), a + n);
        assert_eq!(lex.remainder().len(), src.len() - a - n);
    }

    #[kani::proof]
    #[kani::unwind(10)]
    #[kani::should_panic]
    fn bump_out_of_range_panics() {
        let buf: [u8; N] = kani::any();
        let src = any_slice(&buf);
        let mut lex: Lexer<StepB> = Lexer::new(src);
        let a: usize = kani::any();
        kani::assume(a <= src.len());
        lex.bump(a);
        let n: usize = kani::any();
        kani::assume(n > src.len() - a);      // includes values whose addition overflows
        lex.bump(n);
    }
}
